package main

import (
	"fmt"
	"go/ast"
	"go/token"
	"go/types"
	"strings"
)

type specFn func(env *Env, recv *Val, args []Val, st *State, call *ast.CallExpr) Val

// stdSpecs: assumed contracts of library functions, implemented natively.
// Every use is recorded as a trusted assumption in the evidence.
var stdSpecs map[string]specFn

func init() {
	stdSpecs = map[string]specFn{
		"bytes.Compare":   specBytesCompare,
		"bytes.Equal":     specBytesEqual,
		"bytes.HasPrefix": specBytesHasPrefix,
		"slices.Equal":    specBytesEqual,
		"(*sync.Mutex).Lock":      specLock("Lock"),
		"(*sync.Mutex).Unlock":    specLock("Unlock"),
		"(*sync.RWMutex).Lock":    specLock("Lock"),
		"(*sync.RWMutex).Unlock":  specLock("Unlock"),
		"(*sync.RWMutex).RLock":   specLock("RLock"),
		"(*sync.RWMutex).RUnlock": specLock("RUnlock"),
		"(time.Time).After":    specTimeCmp(">"),
		"(time.Time).Before":   specTimeCmp("<"),
		"(time.Time).Equal":    specTimeCmp("="),
		"(time.Time).Compare":  specTimeCompare,
		"(time.Time).Add":      specTimeAdd,
		"(time.Time).Sub":      specTimeSub,
		"(time.Time).UnixNano": specTimeIdent,
		"(time.Time).IsZero":   func(env *Env, recv *Val, args []Val, st *State, call *ast.CallExpr) Val { env.c.timeAxioms(); return boolVal(eq(recv.T, "time_zero")) },
		"time.Unix":            specTimeUnix,
		"time.UnixMilli":       func(env *Env, recv *Val, args []Val, st *State, call *ast.CallExpr) Val { return Val{T: app("*", args[0].T, "1000000"), Ty: timeType(env)} },
		"errors.Is":   specErrorsIs,
		"errors.New":  specNewError,
		"fmt.Errorf":  specNewError,
		"fmt.Sprintf": specOpaqueStr,
		"fmt.Sprint":  specOpaqueStr,
		"(*log/slog.Logger).Info":  specNop,
		"(*log/slog.Logger).Debug": specNop,
		"(*log/slog.Logger).Warn":  specNop,
		"(*log/slog.Logger).Error": specNop,
		"log/slog.Info":  specNop,
		"log/slog.Debug": specNop,
		"log/slog.Warn":  specNop,
		"log/slog.Error": specNop,
		"log.Printf":     specNop,
		"log.Println":    specNop,
		"slices.Clone": func(env *Env, recv *Val, args []Val, st *State, call *ast.CallExpr) Val { return args[0] },
		"maps.Clone":   func(env *Env, recv *Val, args []Val, st *State, call *ast.CallExpr) Val { return args[0] },
		"encoding/binary.bigEndian.Uint16":    specBEGet(2),
		"encoding/binary.bigEndian.Uint32":    specBEGet(4),
		"encoding/binary.bigEndian.Uint64":    specBEGet(8),
		"(encoding/binary.bigEndian).Uint16":    specBEGet(2),
		"(encoding/binary.bigEndian).Uint32":    specBEGet(4),
		"(encoding/binary.bigEndian).Uint64":    specBEGet(8),
		"math/bits.RotateLeft32": specRotl32,
		"(encoding/binary.bigEndian).PutUint16":    specPut(2, true),
		"(encoding/binary.bigEndian).PutUint32":    specPut(4, true),
		"(encoding/binary.bigEndian).PutUint64":    specPut(8, true),
		"(encoding/binary.littleEndian).PutUint16": specPut(2, false),
		"(encoding/binary.littleEndian).PutUint32": specPut(4, false),
		"(encoding/binary.littleEndian).PutUint64": specPut(8, false),
		"(encoding/binary.littleEndian).Uint16":    specLEGet(2),
		"(encoding/binary.littleEndian).Uint32":    specLEGet(4),
		"(encoding/binary.littleEndian).Uint64":    specLEGet(8),
		"strings.HasPrefix": specBytesHasPrefix,
		"errors.Join":       specErrorsJoin,
		"io.ReadFull":       specIOReadFull,
		"bytes.NewReader":            specBytesNewReader,
		"(*bytes.Reader).Seek":       specBytesReaderSeek,
		"encoding/binary.Read":       specBinaryRead,
		"io.ReadAll":                 specIOReadAll,
		"encoding/json.Unmarshal":    specJSONUnmarshal,
		"strconv.Itoa": func(env *Env, recv *Val, args []Val, st *State, call *ast.CallExpr) Val {
			env.c.strAxioms()
			env.c.decls.declFun("strconv_itoa", []string{"Int"}, "Str")
			env.c.decls.axiom("strconv_itoa/inj", "(forall ((a Int) (b Int)) (! (=> (= (strconv_itoa a) (strconv_itoa b)) (= a b)) :pattern ((strconv_itoa a) (strconv_itoa b))))")
			env.c.trust("strconv.Itoa: a deterministic, injective function of the number")
			return Val{T: app("strconv_itoa", args[0].T), Ty: tString}
		},
		"path/filepath.Join":         specPathJoin,
		"path.Join":                  specPathJoin,
		"path/filepath.Dir":          specPathFn("path_dir"),
		"path.Dir":                   specPathFn("path_dir"),
		"path/filepath.Base":         specPathFn("path_base"),
		"path.Base":                  specPathFn("path_base"),
		"path.Split":                 specPathSplit,
		"path/filepath.Split":        specPathSplit,
		"bytes.NewBuffer":            specBytesNewBuffer,
		"slices.BinarySearchFunc": specBinarySearchFunc,
		"slices.BinarySearch":     specBinarySearch,
		"io.CopyN":          specIOCopyN,
		"(io.Reader).Read":  specIORead,
		"slices.SortFunc":   specSlicesSortFunc,
		"slices.SortedFunc": specSlicesSortedFunc,
		"slices.Sorted": func(env *Env, recv *Val, args []Val, st *State, call *ast.CallExpr) Val {
			return specSlicesSortedFunc(env, recv, []Val{args[0], {T: "natural-order"}}, st, call)
		},
		"slices.ContainsFunc": specSlicesContainsFunc,
		"slices.IndexFunc":    specSlicesIndexFunc,
		"slices.Backward":   specSlicesBackward,
		"strings.Compare":   specBytesCompare,
		"cmp.Compare":       specCmpCompare,
		"slices.Delete":     specSlicesDelete,
		"(*sync/atomic.Bool).Load":           specAtomicBool("Load"),
		"(*sync/atomic.Bool).Store":          specAtomicBool("Store"),
		"(*sync/atomic.Bool).CompareAndSwap": specAtomicBool("CompareAndSwap"),
		"(*sync/atomic.Uint32).Load":  specAtomicInt("Load"),
		"(*sync/atomic.Uint32).Store": specAtomicInt("Store"),
		"(*sync/atomic.Uint64).Load":  specAtomicInt("Load"),
		"(*sync/atomic.Uint64).Store": specAtomicInt("Store"),
		"(*sync/atomic.Int64).Load":   specAtomicInt("Load"),
		"(*sync/atomic.Int64).Store":  specAtomicInt("Store"),
		"maps.Values": specMapsSeq(1),
		"maps.Keys":   specMapsSeq(0),
		"slices.Collect": specSlicesCollect,
		"slices.Values":  specSlicesValues,
	}
}

func timeType(env *Env) types.Type {
	for _, p := range env.c.e.pkgs {
		for _, ip := range p.Imports {
			if ip.PkgPath == "time" {
				return ip.Types.Scope().Lookup("Time").Type()
			}
		}
	}
	return tInt
}

func (c *Ctx) timeAxioms() {
	c.decls.declConst("time_zero", "Int")
	c.decls.axiom("timezero", "(< time_zero (- 9223372036854775808))")
	c.trust("time.Time is an integer count of nanoseconds; the zero Time is below every Unix-nanosecond value; Add/Sub do not saturate")
}

func specNop(env *Env, recv *Val, args []Val, st *State, call *ast.CallExpr) Val { return Val{} }

func specLock(op string) specFn {
	return func(env *Env, recv *Val, args []Val, st *State, call *ast.CallExpr) Val {
		if sel, ok := unparen(call.Fun).(*ast.SelectorExpr); ok {
			env.lockOp(sel.X, op, st, call.Pos())
		}
		return Val{}
	}
}

// Byte strings are compared through their content abstraction: bytes_str(b) is the
// string with b's content, str_cmp is the lexicographic total order on strings.
func (c *Ctx) bytesAxioms(s string) {
	c.strAxioms()
	c.decls.declFun("bytes_str", []string{s}, "Str")
	c.decls.axiom("bytes_str", fmt.Sprintf("(forall ((b %s)) (! (=> (<= 0 (len_%s b)) (= (str_len (bytes_str b)) (len_%s b))) :pattern ((bytes_str b))))", s, s, s))
	// the lexicographic order on strings is a countable total order, hence it embeds
	// into the rationals: str_ord is such an order embedding (injective), and str_cmp is
	// defined through it, so the order axioms come from real arithmetic
	c.decls.declFun("str_ord", []string{"Str"}, "Real")
	c.decls.declFun("str_ord_inv", []string{"Real"}, "Str")
	if !c.decls.have["str_cmp"] {
		c.decls.have["str_cmp"] = true
		c.decls.lines = append(c.decls.lines, "(define-fun str_cmp ((a Str) (b Str)) Int (ite (< (str_ord a) (str_ord b)) (- 1) (ite (= (str_ord a) (str_ord b)) 0 1)))")
	}
	c.trust("bytes.Compare/Equal/HasPrefix and string comparison: lexicographic total order on content, modelled by an injective order embedding of strings into the rationals; prefix implies <=, prefix ranges are convex")
	c.decls.axiom("str_ord/inj", "(forall ((a Str)) (! (= (str_ord_inv (str_ord a)) a) :pattern ((str_ord a))))")
}

func bytesKey(env *Env, v Val) string {
	s := env.sortOf(v.Ty)
	if s == "Str" {
		return v.T
	}
	return app("bytes_str", v.T)
}

func specBytesCompare(env *Env, recv *Val, args []Val, st *State, call *ast.CallExpr) Val {
	env.c.bytesAxioms(env.sliceSortFor(args[0], args[1]))
	return intVal(app("str_cmp", bytesKey(env, args[0]), bytesKey(env, args[1])))
}

func (env *Env) sliceSortFor(a, b Val) string {
	for _, v := range []Val{a, b} {
		if s := env.sortOf(v.Ty); strings.HasPrefix(s, "Sl_") {
			return s
		}
	}
	return env.sortOf(types.NewSlice(tByte))
}

func specBytesEqual(env *Env, recv *Val, args []Val, st *State, call *ast.CallExpr) Val {
	env.c.bytesAxioms(env.sliceSortFor(args[0], args[1]))
	return boolVal(eq(bytesKey(env, args[0]), bytesKey(env, args[1])))
}

func specBytesHasPrefix(env *Env, recv *Val, args []Val, st *State, call *ast.CallExpr) Val {
	c := env.c
	c.bytesAxioms(env.sliceSortFor(args[0], args[1]))
	fn := "str_hasprefix"
	c.decls.declFun(fn, []string{"Str", "Str"}, "Bool")
	c.decls.axiom(fn+"/le", "(forall ((k Str) (p Str)) (! (=> (str_hasprefix k p) (and (<= (str_cmp p k) 0) (<= (str_len p) (str_len k)))) :pattern ((str_hasprefix k p))))")
	c.decls.axiom(fn+"/convex", "(forall ((a Str) (b Str) (m Str) (p Str)) (! (=> (and (str_hasprefix a p) (str_hasprefix b p) (<= (str_cmp a m) 0) (<= (str_cmp m b) 0)) (str_hasprefix m p)) :pattern ((str_hasprefix a p) (str_hasprefix b p) (str_hasprefix m p))))")
	c.decls.axiom(fn+"/self", "(forall ((k Str)) (! (str_hasprefix k k) :pattern ((str_hasprefix k k))))")
	c.decls.axiom(fn+"/empty", "(forall ((k Str)) (! (str_hasprefix k str_empty) :pattern ((str_hasprefix k str_empty))))")
	return boolVal(app(fn, bytesKey(env, args[0]), bytesKey(env, args[1])))
}

func specTimeCmp(op string) specFn {
	return func(env *Env, recv *Val, args []Val, st *State, call *ast.CallExpr) Val {
		env.c.timeAxioms()
		return boolVal(app(op, recv.T, args[0].T))
	}
}

func specTimeCompare(env *Env, recv *Val, args []Val, st *State, call *ast.CallExpr) Val {
	env.c.timeAxioms()
	return intVal(ite(app("<", recv.T, args[0].T), "(- 1)", ite(app(">", recv.T, args[0].T), "1", "0")))
}

func specTimeAdd(env *Env, recv *Val, args []Val, st *State, call *ast.CallExpr) Val {
	env.c.timeAxioms()
	return Val{T: app("+", recv.T, args[0].T), Ty: recv.Ty}
}

func specTimeSub(env *Env, recv *Val, args []Val, st *State, call *ast.CallExpr) Val {
	env.c.timeAxioms()
	r := env.c.e.pkgs
	_ = r
	return Val{T: app("-", recv.T, args[0].T), Ty: types.Typ[types.Int64]}
}

func specTimeIdent(env *Env, recv *Val, args []Val, st *State, call *ast.CallExpr) Val {
	env.c.timeAxioms()
	return Val{T: recv.T, Ty: types.Typ[types.Int64]}
}

func specTimeUnix(env *Env, recv *Val, args []Val, st *State, call *ast.CallExpr) Val {
	env.c.timeAxioms()
	return Val{T: app("+", app("*", args[0].T, "1000000000"), args[1].T), Ty: timeType(env)}
}

func specErrorsIs(env *Env, recv *Val, args []Val, st *State, call *ast.CallExpr) Val {
	c := env.c
	c.decls.declFun("err_is", []string{"Int", "Int"}, "Bool")
	c.decls.axiom("err_is", "(forall ((e Int) (t Int)) (! (and (=> (= e t) (err_is e t)) (=> (= e 0) (= (err_is e t) (= t 0)))) :pattern ((err_is e t))))")
	c.trust("errors.Is: reflexive, false for a nil error against a non-nil target, false between two different package-level sentinel errors (plain errors.New values); wrapping chains uninterpreted")
	c.errIsUsed = true
	c.sentinelIsAxioms()
	return boolVal(app("err_is", args[0].T, args[1].T))
}

// sentinelIsAxioms: errors.Is(a, b) is false for two different sentinel errors a and b.
func (c *Ctx) sentinelIsAxioms() {
	if !c.errIsUsed {
		return
	}
	for a := range c.sentinels {
		for b := range c.sentinels {
			if a != b {
				c.decls.axiom("err_is/"+a+"/"+b, fmt.Sprintf("(not (err_is %s %s))", a, b))
			}
		}
	}
}

func specNewError(env *Env, recv *Val, args []Val, st *State, call *ast.CallExpr) Val {
	c := env.c
	r := c.fresh("err", "Int")
	st.assume(fmt.Sprintf("(> %s 0)", r))
	// a newly made error value is not identical to any sentinel error variable
	for _, sn := range sortedKeys(c.sentinels) {
		st.assume(fmt.Sprintf("(distinct %s %s)", r, sn))
	}
	c.freshErrs = append(c.freshErrs, r)
	// a fresh error differs from every sentinel unless it wraps one (%w): wrapped sentinel stays Is-reachable
	c.decls.declFun("err_is", []string{"Int", "Int"}, "Bool")
	c.decls.axiom("err_is", "(forall ((e Int) (t Int)) (! (and (=> (= e t) (err_is e t)) (=> (= e 0) (= (err_is e t) (= t 0)))) :pattern ((err_is e t))))")
	et := types.Universe.Lookup("error").Type()
	return Val{T: r, Ty: et}
}

func specOpaqueStr(env *Env, recv *Val, args []Val, st *State, call *ast.CallExpr) Val {
	env.c.strAxioms()
	return Val{T: env.c.fresh("fmtstr", "Str"), Ty: tString}
}

func specBEGet(n int) specFn {
	return func(env *Env, recv *Val, args []Val, st *State, call *ast.CallExpr) Val {
		c := env.c
		b := args[0]
		s := env.sortOf(b.Ty)
		env.rangeAssume(st, b)
		env.safety(st, "index", app("<=", fmt.Sprint(n), app("len_"+s, b.T)), call.Pos())
		var parts []string
		for i := 0; i < n; i++ {
			el := Val{T: app("select", app("arr_"+s, b.T), fmt.Sprint(i)), Ty: tByte}
			env.rangeAssume(st, el)
			parts = append(parts, app("*", el.T, pow2(int64(8*(n-1-i))).String()))
		}
		_ = c
		ty := map[int]types.Type{2: types.Typ[types.Uint16], 4: types.Typ[types.Uint32], 8: types.Typ[types.Uint64]}[n]
		return Val{T: app("+", parts...), Ty: ty}
	}
}

func specRotl32(env *Env, recv *Val, args []Val, st *State, call *ast.CallExpr) Val {
	c := env.c
	if c.bv {
		if n, ok := bvConst(args[1].T); ok {
			return Val{T: fmt.Sprintf("((_ rotate_left %d) %s)", n, args[0].T), Ty: types.Typ[types.Uint32]}
		}
	}
	c.unsupported("bits.RotateLeft32 outside bv mode")
	return env.havoc(st, "rotl", types.Typ[types.Uint32])
}

func bvConst(t string) (int64, bool) {
	// (_ bvN W)
	if strings.HasPrefix(t, "(_ bv") {
		var n, w int64
		if _, err := fmt.Sscanf(t, "(_ bv%d %d)", &n, &w); err == nil {
			return n, true
		}
	}
	if n, ok := isConstInt(t); ok {
		return n.Int64(), true
	}
	return 0, false
}

// evalQuantGo handles exported helpers of the verifghost package (same meaning as the
// lower-case contract builtins).
func (env *Env) evalQuantGo(name string, call *ast.CallExpr, st *State) Val {
	switch name {
	case "Forall":
		return env.evalQuant("forall", call, st)
	case "Exists":
		return env.evalQuant("exists", call, st)
	}
	env.c.unsupported("verifghost.%s", name)
	return boolVal("true")
}

// execBuiltinStmt: delete / copy / clear / close.
func (env *Env) execBuiltinStmt(name string, x *ast.CallExpr, st *State) Val {
	c := env.c
	switch name {
	case "delete":
		m := env.eval(x.Args[0], st)
		k := env.eval(x.Args[1], st)
		if mt, ok := types.Unalias(env.subst(m.Ty)).Underlying().(*types.Map); ok {
			k = env.coerce(k, mt.Key(), st)
		}
		c.assign(env, x.Args[0], env.mapDelete(m, k), st)
		return Val{}
	case "copy":
		dst := env.eval(x.Args[0], st)
		src := env.eval(x.Args[1], st)
		ds := env.sortOf(dst.Ty)
		ss := env.sortOf(src.Ty)
		if ss == "Str" {
			src = env.convert(src, types.NewSlice(tByte), st, x.Pos())
			ss = env.sortOf(src.Ty)
		}
		env.rangeAssume(st, dst)
		env.rangeAssume(st, src)
		ld, ls := app("len_"+ds, dst.T), app("len_"+ss, src.T)
		n := ite(app("<=", ld, ls), ld, ls)
		es := env.sortOf(elemOf(dst.Ty))
		arr := c.fresh("copy", fmt.Sprintf("(Array Int %s)", es))
		j := c.freshBound("j")
		st.assume(fmt.Sprintf("(forall ((%s Int)) (! (= (select %s %s) (ite (and (<= 0 %s) (< %s %s)) (select (arr_%s %s) %s) (select (arr_%s %s) %s))) :pattern ((select %s %s))))",
			j, arr, j, j, j, n, ss, src.T, j, ds, dst.T, j, arr, j))
		c.assignSliceTarget(env, x.Args[0], Val{T: app("mk_"+ds, arr, ld), Ty: dst.Ty}, st)
		return intVal(n)
	case "clear":
		m := env.eval(x.Args[0], st)
		c.assign(env, x.Args[0], env.zero(m.Ty), st)
		return Val{}
	case "close":
		// close(x.f): ghost flag x.fClosed; closing twice panics
		if sel, ok := unparen(x.Args[0]).(*ast.SelectorExpr); ok {
			base := env.eval(sel.X, st)
			if _, sty, isPtr := structOf(env.subst(base.Ty)); sty != nil && isPtr {
				key := env.structSortOf(base.Ty) + ".$" + sel.Sel.Name + "Closed"
				h := env.heapTerm(st, key, "Bool")
				env.safety(st, "close-closed", not(app("select", h, base.T)), x.Pos())
				st.heap[key] = app("store", h, base.T, "true")
				c.trust("close(x.f) of a channel field sets the ghost flag x.fClosed; receive/blocking is not modelled")
				return Val{}
			}
		}
		c.trust("channel close is not modelled")
		return Val{}
	}
	return Val{}
}

// assignSliceTarget writes a whole-slice value back through expressions like b[:n] or b[i:].
func (c *Ctx) assignSliceTarget(env *Env, target ast.Expr, v Val, st *State) {
	switch t := unparen(target).(type) {
	case *ast.SliceExpr:
		base := env.eval(t.X, st)
		s := env.sortOf(base.Ty)
		if !strings.HasPrefix(s, "Sl_") {
			c.unsupported("copy into slice of %v", base.Ty)
			return
		}
		lo := "0"
		if t.Low != nil {
			lo = env.eval(t.Low, st).T
		}
		es := env.sortOf(elemOf(base.Ty))
		arr := c.fresh("copyback", fmt.Sprintf("(Array Int %s)", es))
		j := c.freshBound("j")
		ln := app("len_"+s, v.T)
		st.assume(fmt.Sprintf("(forall ((%s Int)) (! (= (select %s %s) (ite (and (<= %s %s) (< %s (+ %s %s))) (select (arr_%s %s) (- %s %s)) (select (arr_%s %s) %s))) :pattern ((select %s %s))))",
			j, arr, j, lo, j, j, lo, ln, s, v.T, j, lo, s, base.T, j, arr, j))
		c.assignSliceTarget(env, t.X, Val{T: app("mk_"+s, arr, app("len_"+s, base.T)), Ty: base.Ty}, st)
	default:
		c.assign(env, target, v, st)
	}
}

func (c *Ctx) unrollFor(env *Env, x *ast.ForStmt, st *State, label string) []*State {
	fr := c.frame()
	live := []*State{st}
	var out []*State
	for k := 0; k <= c.unroll; k++ {
		var next []*State
		for _, s := range live {
			cond := "true"
			if x.Cond != nil {
				cond = env.evalBool(x.Cond, s)
			}
			if x.Cond != nil {
				ex := s.clone()
				ex.assume(not(cond))
				out = append(out, ex)
			}
			if k == c.unroll {
				continue // bound reached: paths needing more iterations are dropped (bounded mode)
			}
			s.assume(cond)
			lc := &loopCtx{label: label}
			fr.loops = append(fr.loops, lc)
			ends := c.execBlock(env, x.Body.List, []*State{s})
			ends = append(ends, lc.continues...)
			fr.loops = fr.loops[:len(fr.loops)-1]
			out = append(out, lc.breaks...)
			for _, e := range ends {
				if x.Post != nil {
					o := c.execStmt(env, x.Post, e)
					if len(o) == 0 {
						continue
					}
					e = o[0]
				}
				next = append(next, e)
			}
		}
		live = next
	}
	return out
}

func (c *Ctx) unrollRange(env *Env, x *ast.RangeStmt, st *State, label string) []*State {
	c.unsupported("%s: range loop in unrolling mode", c.e.pos(x.Pos()))
	return nil
}

var _ = token.NoPos

// specMapsSeq: maps.Values / maps.Keys yield each entry of the map exactly once, in an
// unspecified order. Modelled as a finite sequence with two skolem functions:
// key_of(seq, i) (the key behind position i) and idx_of(seq, k) (the position of key k).
func specMapsSeq(which int) specFn {
	return func(env *Env, recv *Val, args []Val, st *State, call *ast.CallExpr) Val {
		c := env.c
		m := args[0]
		mt, ok := types.Unalias(env.subst(m.Ty)).Underlying().(*types.Map)
		if !ok {
			c.unsupported("maps.Values of non-map")
			return Val{}
		}
		c.trust("maps.Values/maps.Keys: a finite sequence enumerating every map entry exactly once in unspecified order")
		ms := env.sortOf(m.Ty)
		et := mt.Elem()
		if which == 0 {
			et = mt.Key()
		}
		seqT := seqType(et)
		ss := env.sortOf(seqT)
		sv := c.fresh("mapseq", ss)
		ln := app(c.seqLenFn(ss), sv)
		at := seqAtFn(c, env, ss, et, 0)
		ks := env.sortOf(mt.Key())
		keyOf := "mapseq_key_" + mangle(ss) + "_" + mangle(ks)
		idxOf := "mapseq_idx_" + mangle(ss) + "_" + mangle(ks)
		c.decls.declFun(keyOf, []string{ss, "Int"}, ks)
		c.decls.declFun(idxOf, []string{ss, ks}, "Int")
		has := app("mh_"+ms, m.T)
		val := func(k string) string {
			if which == 0 {
				return k
			}
			return app("select", app("mv_"+ms, m.T), k)
		}
		i := c.freshBound("i")
		k := c.freshBound("k")
		st.assume(eq(ln, app("mc_"+ms, m.T)))
		st.assume(app("<=", "0", ln))
		st.assume(fmt.Sprintf("(forall ((%s Int)) (! (=> (and (<= 0 %s) (< %s %s)) (and (select %s (%s %s %s)) (= (%s %s %s) %s) (= (%s %s (%s %s %s)) %s))) :pattern ((%s %s %s))))",
			i, i, i, ln, has, keyOf, sv, i, at, sv, i, val(app(keyOf, sv, i)), idxOf, sv, keyOf, sv, i, i, at, sv, i))
		st.assume(fmt.Sprintf("(forall ((%s %s)) (! (=> (select %s %s) (and (<= 0 (%s %s %s)) (< (%s %s %s) %s) (= (%s %s (%s %s %s)) %s) (= (%s %s (%s %s %s)) %s))) :pattern ((select %s %s))))",
			k, ks, has, k, idxOf, sv, k, idxOf, sv, k, ln, keyOf, sv, idxOf, sv, k, k, at, sv, idxOf, sv, k, val(k), has, k))
		return Val{T: sv, Ty: seqT}
	}
}

// seqType builds the Go type iter.Seq[E] = func(yield func(E) bool).
func seqType(et types.Type) types.Type {
	yield := types.NewSignatureType(nil, nil, nil, types.NewTuple(types.NewVar(token.NoPos, nil, "", et)), types.NewTuple(types.NewVar(token.NoPos, nil, "", tBool)), false)
	return types.NewSignatureType(nil, nil, nil, types.NewTuple(types.NewVar(token.NoPos, nil, "yield", yield)), nil, false)
}

func seqAtFn(c *Ctx, env *Env, seqSort string, et types.Type, which int) string {
	fn := fmt.Sprintf("seq_at%d_%s", which, mangle(seqSort))
	if len(fn) > 100 {
		fn = fn[:100]
	}
	c.decls.declFun(fn, []string{seqSort, "Int"}, env.sortOf(et))
	return fn
}

// slices.Collect(seq): the slice of the sequence's elements in order.
func specSlicesCollect(env *Env, recv *Val, args []Val, st *State, call *ast.CallExpr) Val {
	c := env.c
	sq := args[0]
	sig, ok := types.Unalias(env.subst(sq.Ty)).Underlying().(*types.Signature)
	if !ok {
		c.unsupported("slices.Collect of non-seq")
		return Val{}
	}
	ys := sig.Params().At(0).Type().Underlying().(*types.Signature)
	et := env.subst(ys.Params().At(0).Type())
	ss := env.sortOf(sq.Ty)
	rt := types.NewSlice(et)
	r := env.havoc(st, "collected", rt)
	rs := env.sortOf(rt)
	at := seqAtFn(c, env, ss, et, 0)
	i := c.freshBound("i")
	st.assume(eq(app("len_"+rs, r.T), app(c.seqLenFn(ss), sq.T)))
	st.assume(fmt.Sprintf("(forall ((%s Int)) (! (= (select (arr_%s %s) %s) (%s %s %s)) :pattern ((select (arr_%s %s) %s)) :pattern ((%s %s %s))))", i, rs, r.T, i, at, sq.T, i, rs, r.T, i, at, sq.T, i))
	return r
}

func specSlicesValues(env *Env, recv *Val, args []Val, st *State, call *ast.CallExpr) Val {
	c := env.c
	sl := args[0]
	et := elemOf(env.subst(sl.Ty))
	seqT := seqType(et)
	ss := env.sortOf(seqT)
	sv := c.fresh("sliceseq", ss)
	s := env.sortOf(sl.Ty)
	at := seqAtFn(c, env, ss, et, 0)
	i := c.freshBound("i")
	st.assume(eq(app(c.seqLenFn(ss), sv), app("len_"+s, sl.T)))
	st.assume(fmt.Sprintf("(forall ((%s Int)) (! (= (%s %s %s) (select (arr_%s %s) %s)) :pattern ((%s %s %s))))", i, at, sv, i, s, sl.T, i, at, sv, i))
	return Val{T: sv, Ty: seqT}
}

// specAtomicBool models an atomic.Bool struct field x.f as the ghost field x.fFlag (bool).
func specAtomicBool(op string) specFn {
	return func(env *Env, recv *Val, args []Val, st *State, call *ast.CallExpr) Val {
		c := env.c
		sel, ok := unparen(call.Fun).(*ast.SelectorExpr)
		var fsel *ast.SelectorExpr
		if ok {
			fsel, ok = unparen(sel.X).(*ast.SelectorExpr)
		}
		if !ok {
			c.unsupported("atomic.Bool not reached through a struct field")
			return boolVal(c.fresh("atomic", "Bool"))
		}
		base := env.eval(fsel.X, st)
		_, sty, isPtr := structOf(env.subst(base.Ty))
		if sty == nil || !isPtr {
			c.unsupported("atomic.Bool field of a non-pointer struct")
			return boolVal(c.fresh("atomic", "Bool"))
		}
		c.trust("atomic.Bool fields are modelled as ghost boolean fields <name>Flag (sequentially consistent)")
		key := env.structSortOf(base.Ty) + ".$" + fsel.Sel.Name + "Flag"
		h := env.heapTerm(st, key, "Bool")
		cur := app("select", h, base.T)
		switch op {
		case "Load":
			return boolVal(cur)
		case "Store":
			st.heap[key] = app("store", h, base.T, args[0].T)
			return Val{}
		default: // CompareAndSwap(old, new)
			okv := eq(cur, args[0].T)
			st.heap[key] = app("store", h, base.T, ite(okv, args[1].T, cur))
			return boolVal(okv)
		}
	}
}

// specPut: binary.{Big,Little}Endian.PutUintN(b, v) writes the n bytes of v into b[0:n]
// (the slice argument is written back into the caller's slice expression).
func specPut(n int, big bool) specFn {
	return func(env *Env, recv *Val, args []Val, st *State, call *ast.CallExpr) Val {
		c := env.c
		b, v := args[0], args[1]
		s := env.sortOf(b.Ty)
		env.rangeAssume(st, b)
		env.safety(st, "index", app("<=", fmt.Sprint(n), app("len_"+s, b.T)), call.Pos())
		arr := app("arr_"+s, b.T)
		for i := 0; i < n; i++ {
			shift := i
			if big {
				shift = n - 1 - i
			}
			byteV := fmt.Sprintf("(mod (div %s %s) 256)", v.T, pow2(int64(8*shift)).String())
			arr = app("store", arr, fmt.Sprint(i), byteV)
		}
		nv := Val{T: app("mk_"+s, arr, app("len_"+s, b.T)), Ty: b.Ty}
		// arithmetic fact (positional notation, proved as lemmas leRoundTrip32/64 in dkv/fields):
		// the written bytes recompose to the value
		var parts []string
		for i := 0; i < n; i++ {
			shift := i
			if big {
				shift = n - 1 - i
			}
			parts = append(parts, app("*", fmt.Sprintf("(mod (div %s %s) 256)", v.T, pow2(int64(8*shift)).String()), pow2(int64(8*shift)).String()))
		}
		st.assume(implies(app("<=", "0", v.T), eq(app("+", parts...), fmt.Sprintf("(mod %s %s)", v.T, pow2(int64(8*n)).String()))))
		c.trust("binary.PutUintN: the n bytes written are the base-256 digits of the value, and the digits recompose to the value (positional notation)")
		if len(call.Args) >= 1 && !env.contract {
			c.assignSliceTarget(env, call.Args[0], nv, st)
		}
		return Val{}
	}
}

func specLEGet(n int) specFn {
	return func(env *Env, recv *Val, args []Val, st *State, call *ast.CallExpr) Val {
		b := args[0]
		s := env.sortOf(b.Ty)
		env.rangeAssume(st, b)
		env.safety(st, "index", app("<=", fmt.Sprint(n), app("len_"+s, b.T)), call.Pos())
		var parts []string
		for i := 0; i < n; i++ {
			el := Val{T: app("select", app("arr_"+s, b.T), fmt.Sprint(i)), Ty: tByte}
			env.rangeAssume(st, el)
			parts = append(parts, app("*", el.T, pow2(int64(8*i)).String()))
		}
		ty := map[int]types.Type{2: types.Typ[types.Uint16], 4: types.Typ[types.Uint32], 8: types.Typ[types.Uint64]}[n]
		return Val{T: app("+", parts...), Ty: ty}
	}
}

// slices.Delete(s, i, j): the elements before i, then the elements from j on.
func specSlicesDelete(env *Env, recv *Val, args []Val, st *State, call *ast.CallExpr) Val {
	c := env.c
	sl, i, j := args[0], args[1], args[2]
	s := env.sortOf(sl.Ty)
	env.rangeAssume(st, sl)
	ln := app("len_"+s, sl.T)
	env.safety(st, "slice", and(app("<=", "0", i.T), app("<=", i.T, j.T), app("<=", j.T, ln)), call.Pos())
	es := env.sortOf(elemOf(sl.Ty))
	arr := c.fresh("deleted", fmt.Sprintf("(Array Int %s)", es))
	q := c.freshBound("q")
	st.assume(fmt.Sprintf("(forall ((%s Int)) (! (= (select %s %s) (ite (< %s %s) (select (arr_%s %s) %s) (select (arr_%s %s) (+ %s (- %s %s))))) :pattern ((select %s %s))))",
		q, arr, q, q, i.T, s, sl.T, q, s, sl.T, q, j.T, i.T, arr, q))
	// the same fact keyed on reads of the original slice (lets the solver find shifted witnesses)
	st.assume(fmt.Sprintf("(forall ((%s Int)) (! (and (=> (< %s %s) (= (select %s %s) (select (arr_%s %s) %s))) (=> (>= %s %s) (= (select %s (- %s (- %s %s))) (select (arr_%s %s) %s)))) :pattern ((select (arr_%s %s) %s))))",
		q, q, i.T, arr, q, s, sl.T, q, q, j.T, arr, q, j.T, i.T, s, sl.T, q, s, sl.T, q))
	c.trust("slices.Delete(s,i,j) returns s[:i] followed by s[j:] (value semantics; the argument slice is not reused)")
	return Val{T: app("mk_"+s, arr, app("-", ln, app("-", j.T, i.T))), Ty: sl.Ty}
}

// specAtomicInt models an atomic integer struct field x.f as the ghost field x.fVal.
func specAtomicInt(op string) specFn {
	return func(env *Env, recv *Val, args []Val, st *State, call *ast.CallExpr) Val {
		c := env.c
		sel, ok := unparen(call.Fun).(*ast.SelectorExpr)
		var fsel *ast.SelectorExpr
		if ok {
			fsel, ok = unparen(sel.X).(*ast.SelectorExpr)
		}
		sig := types.Typ[types.Uint64]
		if !ok {
			c.unsupported("atomic integer not reached through a struct field")
			return env.havoc(st, "atomic", sig)
		}
		base := env.eval(fsel.X, st)
		_, sty, isPtr := structOf(env.subst(base.Ty))
		if sty == nil || !isPtr {
			c.unsupported("atomic integer field of a non-pointer struct")
			return env.havoc(st, "atomic", sig)
		}
		c.trust("atomic integer fields are modelled as ghost integer fields <name>Val (sequentially consistent)")
		key := env.structSortOf(base.Ty) + ".$" + fsel.Sel.Name + "Val"
		h := env.heapTerm(st, key, "Int")
		switch op {
		case "Load":
			var rt types.Type = sig
			if !env.contract {
				if t := env.pkg.info.TypeOf(call); t != nil {
					rt = t
				}
			}
			r := Val{T: app("select", h, base.T), Ty: rt}
			env.rangeAssume(st, r)
			return r
		default:
			st.heap[key] = app("store", h, base.T, args[0].T)
			return Val{}
		}
	}
}

// errors.Join: nil iff every argument is nil.
func specErrorsJoin(env *Env, recv *Val, args []Val, st *State, call *ast.CallExpr) Val {
	c := env.c
	r := c.fresh("joined", "Int")
	var allNil []string
	for _, a := range args {
		allNil = append(allNil, eq(a.T, "0"))
	}
	st.assume(fmt.Sprintf("(>= %s 0)", r))
	st.assume(eq(eq(r, "0"), and(allNil...)))
	return Val{T: r, Ty: types.Universe.Lookup("error").Type()}
}

// slices.SortFunc(s, cmp) sorts in place: the result is ordered by cmp and holds the same elements.
func specSlicesSortFunc(env *Env, recv *Val, args []Val, st *State, call *ast.CallExpr) Val {
	c := env.c
	sl, cmpf := args[0], args[1]
	s := env.sortOf(sl.Ty)
	env.rangeAssume(st, sl)
	es := env.sortOf(elemOf(sl.Ty))
	arr := c.fresh("sorted", fmt.Sprintf("(Array Int %s)", es))
	ln := app("len_"+s, sl.T)
	i, j := c.freshBound("i"), c.freshBound("j")
	sub := *env
	sub.noSafety = true
	sub.qvars = append(append([]string(nil), env.qvars...), fmt.Sprintf("(%s Int)", i), fmt.Sprintf("(%s Int)", j))
	sub.qnames = append(append([]string(nil), env.qnames...), i, j)
	et := elemOf(sl.Ty)
	scratch := st.clone()
	r := sub.applyFuncValue(cmpf, []Val{{T: app("select", arr, i), Ty: et}, {T: app("select", arr, j), Ty: et}}, scratch, call)
	st.assume(fmt.Sprintf("(forall ((%s Int) (%s Int)) (=> (and (<= 0 %s) (< %s %s) (< %s %s)) (<= %s 0)))", i, j, i, i, j, j, ln, r.T))
	// same elements (both directions, skolemised)
	f1, f2 := c.fresh("perm", "(Array Int Int)"), c.fresh("perminv", "(Array Int Int)")
	st.assume(fmt.Sprintf("(forall ((%s Int)) (! (= (select %s (select %s %s)) %s) :pattern ((select %s %s))))", i, f2, f1, i, i, f1, i))
	st.assume(fmt.Sprintf("(forall ((%s Int)) (! (= (select %s (select %s %s)) %s) :pattern ((select %s %s))))", i, f1, f2, i, i, f2, i))
	st.assume(fmt.Sprintf("(forall ((%s Int)) (! (=> (and (<= 0 %s) (< %s %s)) (and (<= 0 (select %s %s)) (< (select %s %s) %s) (= (select %s %s) (select (arr_%s %s) (select %s %s))))) :pattern ((select %s %s))))",
		i, i, i, ln, f1, i, f1, i, ln, arr, i, s, sl.T, f1, i, arr, i))
	st.assume(fmt.Sprintf("(forall ((%s Int)) (! (=> (and (<= 0 %s) (< %s %s)) (and (<= 0 (select %s %s)) (< (select %s %s) %s) (= (select %s (select %s %s)) (select (arr_%s %s) %s)))) :pattern ((select (arr_%s %s) %s))))",
		i, i, i, ln, f2, i, f2, i, ln, arr, f2, i, s, sl.T, i, s, sl.T, i))
	c.trust("slices.SortFunc: in-place sort; result ordered by the comparison function and a permutation of the input")
	nv := Val{T: app("mk_"+s, arr, ln), Ty: sl.Ty}
	if !env.contract && len(call.Args) > 0 {
		c.assignSliceTarget(env, call.Args[0], nv, st)
	}
	return Val{}
}

func specCmpCompare(env *Env, recv *Val, args []Val, st *State, call *ast.CallExpr) Val {
	a, b := args[0], args[1]
	s := env.sortOf(a.Ty)
	if s == "Str" {
		return specBytesCompare(env, recv, args, st, call)
	}
	if s != "Int" && s != "Real" {
		// an ordered type parameter: a total order given by an injective embedding into the reals
		oa, ob := ordOf(env, a), ordOf(env, b)
		return intVal(ite(app("<", oa, ob), "(- 1)", ite(app(">", oa, ob), "1", "0")))
	}
	return intVal(ite(app("<", a.T, b.T), "(- 1)", ite(app(">", a.T, b.T), "1", "0")))
}

// ordOf: position of a value of an ordered (type parameter) sort in its total order.
func ordOf(env *Env, v Val) string {
	c := env.c
	s := env.sortOf(v.Ty)
	switch s {
	case "Int", "Real":
		return v.T
	case "Str":
		c.bytesAxioms(env.sortOf(types.NewSlice(tByte)))
		return app("str_ord", v.T)
	}
	fn, inv := "ord_"+s, "ordinv_"+s
	c.decls.declFun(fn, []string{s}, "Real")
	c.decls.declFun(inv, []string{"Real"}, s)
	c.decls.axiom(fn+"/inj", fmt.Sprintf("(forall ((a %s)) (! (= (%s (%s a)) a) :pattern ((%s a))))", s, inv, fn, fn))
	c.trust("cmp.Compare on an ordered type parameter: a total order (injective embedding into the reals)")
	return app(fn, v.T)
}

// slices.BinarySearch(s, target): a position in [0, len]; found only with s[pos] == target; on a
// slice sorted by the natural order it finds every element that is present.
func specBinarySearch(env *Env, recv *Val, args []Val, st *State, call *ast.CallExpr) Val {
	c := env.c
	sl, tg := args[0], args[1]
	s := env.sortOf(sl.Ty)
	env.rangeAssume(st, sl)
	et := elemOf(sl.Ty)
	tg = env.coerce(tg, et, st)
	ln := app("len_"+s, sl.T)
	idx := env.havoc(st, "bsearch_idx", tInt)
	found := c.fresh("bsearch_found", "Bool")
	at := func(i string) Val { return Val{T: app("select", app("arr_"+s, sl.T), i), Ty: et} }
	st.assume(and(app("<=", "0", idx.T), app("<=", idx.T, ln), implies(found, and(app("<", idx.T, ln), eq(at(idx.T).T, tg.T)))))
	i, j := c.freshBound("i"), c.freshBound("j")
	sorted := fmt.Sprintf("(forall ((%s Int) (%s Int)) (=> (and (<= 0 %s) (< %s %s) (< %s %s)) (<= %s %s)))", i, j, i, i, j, j, ln, ordOf(env, at(i)), ordOf(env, at(j)))
	present := fmt.Sprintf("(exists ((%s Int)) (and (<= 0 %s) (< %s %s) (= %s %s)))", i, i, i, ln, at(i).T, tg.T)
	st.assume(implies(and(sorted, present), found))
	c.trust("slices.BinarySearch: returns a position in [0, len], found only at an equal element, and finds every present element of a sorted slice")
	return Val{Tuple: []Val{idx, boolVal(found)}}
}

// ---- io model. A reader is a byte string `data` and a position `pos` (ghost fields of the
// io.Reader interface value); reads consume bytes from pos. Assumed contracts of the library.
func readerState(env *Env, st *State, r Val) (dataKey, posKey, data, pos, bs string) {
	is := env.sortOf(r.Ty)
	bs = env.sortOf(types.NewSlice(tByte))
	dataKey, posKey = is+".$data", is+".$pos"
	hd := env.heapTermK(st, dataKey, is, bs)
	hp := env.heapTermK(st, posKey, is, "Int")
	data, pos = app("select", hd, r.T), app("select", hp, r.T)
	st.assumeOnce(and(app("<=", "0", pos), app("<=", pos, app("len_"+bs, data))))
	env.c.trust("io model: a reader is a byte string and a position (ghost fields data, pos); ReadFull/Read/CopyN consume from pos; a Read returns at least one byte when one is available")
	return
}

func ioErr(c *Ctx, name string) string {
	g := "|glob:io." + name + "|"
	c.decls.declConst(g, "Int")
	c.declSentinel(g)
	return g
}

func specIOReadFull(env *Env, recv *Val, args []Val, st *State, call *ast.CallExpr) Val {
	c := env.c
	r, buf := args[0], args[1]
	_, posKey, data, pos, bs := readerState(env, st, r)
	env.rangeAssume(st, buf)
	n := app("len_"+bs, buf.T)
	avail := app("-", app("len_"+bs, data), pos)
	enough := app(">=", avail, n)
	// buffer contents afterwards
	arr := c.fresh("readbuf", "(Array Int Int)")
	j := c.freshBound("j")
	st.assume(fmt.Sprintf("(forall ((%s Int)) (! (=> (and (<= 0 %s) (< %s %s) (< %s %s)) (= (select %s %s) (select (arr_%s %s) (+ %s %s)))) :pattern ((select %s %s))))",
		j, j, j, n, j, avail, arr, j, bs, data, pos, j, arr, j))
	st.assume(fmt.Sprintf("(forall ((%s Int)) (! (and (<= 0 (select %s %s)) (<= (select %s %s) 255)) :pattern ((select %s %s))))", j, arr, j, arr, j, arr, j))
	if !env.contract && len(call.Args) >= 2 {
		c.assignSliceTarget(env, call.Args[1], Val{T: app("mk_"+bs, arr, n), Ty: buf.Ty}, st)
	}
	is := env.sortOf(r.Ty)
	hp := st.heap[posKey]
	got := ite(enough, n, avail)
	st.heap[posKey] = app("store", hp, r.T, app("+", pos, got))
	_ = is
	errv := c.fresh("readerr", "Int")
	eof, ueof := ioErr(c, "EOF"), ioErr(c, "ErrUnexpectedEOF")
	st.assume(ite(enough, eq(errv, "0"), ite(eq(avail, "0"), eq(errv, eof), eq(errv, ueof))))
	return Val{Tuple: []Val{{T: got, Ty: tInt}, {T: errv, Ty: types.Universe.Lookup("error").Type()}}}
}

func specIORead(env *Env, recv *Val, args []Val, st *State, call *ast.CallExpr) Val {
	c := env.c
	r, buf := *recv, args[0]
	_, posKey, data, pos, bs := readerState(env, st, r)
	env.rangeAssume(st, buf)
	ln := app("len_"+bs, buf.T)
	avail := app("-", app("len_"+bs, data), pos)
	n := c.fresh("nread", "Int")
	errv := c.fresh("readerr", "Int")
	eof := ioErr(c, "EOF")
	st.assume(and(app("<=", "0", n), app("<=", n, ln), app("<=", n, avail)))
	st.assume(implies(and(app(">", avail, "0"), app(">", ln, "0")), and(app(">=", n, "1"), eq(errv, "0"))))
	st.assume(implies(eq(avail, "0"), and(eq(n, "0"), implies(app(">", ln, "0"), eq(errv, eof)))))
	st.assume(app(">=", errv, "0"))
	arr := c.fresh("readbuf", "(Array Int Int)")
	j := c.freshBound("j")
	st.assume(fmt.Sprintf("(forall ((%s Int)) (! (= (select %s %s) (ite (and (<= 0 %s) (< %s %s)) (select (arr_%s %s) (+ %s %s)) (select (arr_%s %s) %s))) :pattern ((select %s %s))))",
		j, arr, j, j, j, n, bs, data, pos, j, bs, buf.T, j, arr, j))
	if !env.contract {
		if sel, ok := unparen(call.Fun).(*ast.SelectorExpr); ok && len(call.Args) >= 1 {
			_ = sel
			c.assignSliceTarget(env, call.Args[0], Val{T: app("mk_"+bs, arr, ln), Ty: buf.Ty}, st)
		}
	}
	st.heap[posKey] = app("store", st.heap[posKey], r.T, app("+", pos, n))
	return Val{Tuple: []Val{{T: n, Ty: tInt}, {T: errv, Ty: types.Universe.Lookup("error").Type()}}}
}

func specIOCopyN(env *Env, recv *Val, args []Val, st *State, call *ast.CallExpr) Val {
	c := env.c
	// io.CopyN(dst, src, n): only the effect on the source reader is modelled (dst is io.Discard here)
	r, n := args[1], args[2]
	_, posKey, data, pos, bs := readerState(env, st, r)
	avail := app("-", app("len_"+bs, data), pos)
	enough := app(">=", avail, n.T)
	got := ite(enough, ite(app(">=", n.T, "0"), n.T, "0"), avail)
	st.heap[posKey] = app("store", st.heap[posKey], r.T, app("+", pos, got))
	errv := c.fresh("copyerr", "Int")
	st.assume(ite(enough, eq(errv, "0"), eq(errv, ioErr(c, "EOF"))))
	return Val{Tuple: []Val{{T: got, Ty: types.Typ[types.Int64]}, {T: errv, Ty: types.Universe.Lookup("error").Type()}}}
}

// slices.BinarySearchFunc(s, target, cmp): position in [0, len]; found implies a valid index.
// The comparison closure may assign captured variables: those are forgotten.
func specBinarySearchFunc(env *Env, recv *Val, args []Val, st *State, call *ast.CallExpr) Val {
	c := env.c
	sl := args[0]
	s := env.sortOf(sl.Ty)
	env.rangeAssume(st, sl)
	ln := app("len_"+s, sl.T)
	idx := env.havoc(st, "bsearch_idx", tInt)
	found := c.fresh("bsearch_found", "Bool")
	st.assume(and(app("<=", "0", idx.T), app("<=", idx.T, ln), implies(found, app("<", idx.T, ln))))
	if len(args) >= 3 && args[2].Fn != nil && args[2].Fn.Lit != nil && !env.contract {
		cenv := args[2].Fn.Env
		ast.Inspect(args[2].Fn.Lit.Body, func(n ast.Node) bool {
			if as, ok := n.(*ast.AssignStmt); ok && as.Tok == token.ASSIGN {
				for _, l := range as.Lhs {
					if id, ok := unparen(l).(*ast.Ident); ok {
						if o := cenv.resolveIdent(id); o != nil {
							if v, ok := st.vars[o]; ok && v.Ty != nil {
								st.vars[o] = env.havoc(st, id.Name, v.Ty)
							}
						}
					}
				}
			}
			return true
		})
	}
	c.trust("slices.BinarySearchFunc: returns a position in [0, len] and found only with a valid index; ordering facts are not assumed")
	return Val{Tuple: []Val{idx, boolVal(found)}}
}

// slices.SortedFunc(seq, cmp): a new slice holding the sequence's elements ordered by cmp.
func specSlicesSortedFunc(env *Env, recv *Val, args []Val, st *State, call *ast.CallExpr) Val {
	c := env.c
	sq, cmpf := args[0], args[1]
	sig, ok := types.Unalias(env.subst(sq.Ty)).Underlying().(*types.Signature)
	if !ok {
		c.unsupported("slices.SortedFunc of non-seq")
		return Val{}
	}
	ys := sig.Params().At(0).Type().Underlying().(*types.Signature)
	et := env.subst(ys.Params().At(0).Type())
	ss := env.sortOf(sq.Ty)
	rt := types.NewSlice(et)
	r := env.havoc(st, "sorted", rt)
	rs := env.sortOf(rt)
	ln := app(c.seqLenFn(ss), sq.T)
	at := seqAtFn(c, env, ss, et, 0)
	st.assume(eq(app("len_"+rs, r.T), ln))
	st.assume(app("<=", "0", ln))
	i, j := c.freshBound("i"), c.freshBound("j")
	sub := *env
	sub.noSafety = true
	sub.qvars = append(append([]string(nil), env.qvars...), fmt.Sprintf("(%s Int)", i), fmt.Sprintf("(%s Int)", j))
	sub.qnames = append(append([]string(nil), env.qnames...), i, j)
	scratch := st.clone()
	arr := app("arr_"+rs, r.T)
	var cv Val
	if cmpf.T == "natural-order" {
		cv = specCmpCompare(&sub, nil, []Val{{T: app("select", arr, i), Ty: et}, {T: app("select", arr, j), Ty: et}}, scratch, call)
	} else {
		cv = sub.applyFuncValue(cmpf, []Val{{T: app("select", arr, i), Ty: et}, {T: app("select", arr, j), Ty: et}}, scratch, call)
	}
	for _, ex := range scratch.pc[len(st.pc):] {
		if strings.Contains(ex, i) || strings.Contains(ex, j) {
			if strings.HasPrefix(ex, "(! ") {
				if k := strings.LastIndex(ex, " :pattern "); k > 0 {
					ex = ex[3:k]
				}
			}
			st.assume(fmt.Sprintf("(forall ((%s Int) (%s Int)) %s)", i, j, ex))
		} else {
			st.assumeOnce(ex)
		}
	}
	st.assume(fmt.Sprintf("(forall ((%s Int) (%s Int)) (=> (and (<= 0 %s) (< %s %s) (< %s %s)) (<= %s 0)))", i, j, i, i, j, j, ln, cv.T))
	f1, f2 := c.fresh("perm", "(Array Int Int)"), c.fresh("perminv", "(Array Int Int)")
	// perm / perminv are mutually inverse on all integers (a permutation of [0,len) extended by
	// the identity): unconditional inverse facts keep instantiation chains from growing
	st.assume(fmt.Sprintf("(forall ((%s Int)) (! (= (select %s (select %s %s)) %s) :pattern ((select %s %s))))", i, f2, f1, i, i, f1, i))
	st.assume(fmt.Sprintf("(forall ((%s Int)) (! (= (select %s (select %s %s)) %s) :pattern ((select %s %s))))", i, f1, f2, i, i, f2, i))
	st.assume(fmt.Sprintf("(forall ((%s Int)) (! (=> (and (<= 0 %s) (< %s %s)) (and (<= 0 (select %s %s)) (< (select %s %s) %s) (= (select %s %s) (%s %s (select %s %s))))) :pattern ((select %s %s))))",
		i, i, i, ln, f1, i, f1, i, ln, arr, i, at, sq.T, f1, i, arr, i))
	st.assume(fmt.Sprintf("(forall ((%s Int)) (! (=> (and (<= 0 %s) (< %s %s)) (and (<= 0 (select %s %s)) (< (select %s %s) %s) (= (select %s (select %s %s)) (%s %s %s)))) :pattern ((%s %s %s))))",
		i, i, i, ln, f2, i, f2, i, ln, arr, f2, i, at, sq.T, i, at, sq.T, i))
	c.trust("slices.SortedFunc: a permutation of the sequence ordered by the comparison function")
	return r
}

// slices.Backward(s): the (index, element) pairs of s from the last to the first.
func specSlicesBackward(env *Env, recv *Val, args []Val, st *State, call *ast.CallExpr) Val {
	c := env.c
	sl := args[0]
	et := elemOf(env.subst(sl.Ty))
	// iter.Seq2[int, E]
	yield := types.NewSignatureType(nil, nil, nil, types.NewTuple(types.NewVar(token.NoPos, nil, "", tInt), types.NewVar(token.NoPos, nil, "", et)), types.NewTuple(types.NewVar(token.NoPos, nil, "", tBool)), false)
	seqT := types.NewSignatureType(nil, nil, nil, types.NewTuple(types.NewVar(token.NoPos, nil, "yield", yield)), nil, false)
	ss := env.sortOf(seqT)
	sv := c.fresh("backward", ss)
	s := env.sortOf(sl.Ty)
	env.rangeAssume(st, sl)
	ln := app("len_"+s, sl.T)
	at0 := seqAtFn(c, env, ss, tInt, 0)
	at1 := seqAtFn(c, env, ss, et, 1)
	i := c.freshBound("i")
	st.assume(eq(app(c.seqLenFn(ss), sv), ln))
	st.assume(fmt.Sprintf("(forall ((%s Int)) (! (and (= (%s %s %s) (- (- %s 1) %s)) (= (%s %s %s) (select (arr_%s %s) (- (- %s 1) %s)))) :pattern ((%s %s %s)) :pattern ((%s %s %s))))",
		i, at0, sv, i, ln, i, at1, sv, i, s, sl.T, ln, i, at0, sv, i, at1, sv, i))
	return Val{T: sv, Ty: seqT}
}


// ---- bytes.Reader model: a *bytes.Reader is a byte string (ghost data) and a position
// (ghost pos, never negative, possibly beyond the end after a Seek).
func bytesReaderState(env *Env, st *State, r Val) (posKey, data, pos, bs string) {
	bs = env.sortOf(types.NewSlice(tByte))
	dataKey := "Ext_bytes_Reader.$data"
	posKey = "Ext_bytes_Reader.$pos"
	hd := env.heapTerm(st, dataKey, bs)
	hp := env.heapTerm(st, posKey, "Int")
	data, pos = app("select", hd, r.T), app("select", hp, r.T)
	env.c.trust("bytes.Reader model: a byte string and a position; binary.Read consumes exactly the value's size or fails without a value, Seek moves the position, io.ReadAll returns the rest")
	return
}

func isBytesReader(env *Env, t types.Type) bool {
	p, ok := types.Unalias(env.subst(t)).(*types.Pointer)
	if !ok {
		return false
	}
	n, ok := types.Unalias(p.Elem()).(*types.Named)
	return ok && n.Obj().Pkg() != nil && n.Obj().Pkg().Path() == "bytes" && n.Obj().Name() == "Reader"
}

func specBytesNewReader(env *Env, recv *Val, args []Val, st *State, call *ast.CallExpr) Val {
	sig := env.pkg.info.TypeOf(call)
	ref := env.allocRef(st, sig)
	r := Val{T: ref, Ty: sig}
	posKey, _, _, bs := bytesReaderState(env, st, r)
	env.rangeAssume(st, args[0])
	st.heap["Ext_bytes_Reader.$data"] = app("store", st.heap["Ext_bytes_Reader.$data"], ref, args[0].T)
	st.heap[posKey] = app("store", st.heap[posKey], ref, "0")
	_ = bs
	return r
}

func specBytesReaderSeek(env *Env, recv *Val, args []Val, st *State, call *ast.CallExpr) Val {
	c := env.c
	posKey, data, pos, bs := bytesReaderState(env, st, *recv)
	off, wh := args[0].T, args[1].T
	base := ite(eq(wh, "0"), "0", ite(eq(wh, "1"), pos, app("len_"+bs, data)))
	np := app("+", base, off)
	ok := and(app(">=", np, "0"), app("<=", "0", wh), app("<=", wh, "2"))
	errv := c.fresh("seekerr", "Int")
	st.assume(ite(ok, eq(errv, "0"), app(">", errv, "0")))
	st.heap[posKey] = app("store", st.heap[posKey], recv.T, ite(ok, np, pos))
	return Val{Tuple: []Val{{T: ite(ok, np, "0"), Ty: types.Typ[types.Int64]}, {T: errv, Ty: types.Universe.Lookup("error").Type()}}}
}

// binary.Read(r, order, &v) for r a *bytes.Reader and v an unsigned integer or a byte slice.
func specBinaryRead(env *Env, recv *Val, args []Val, st *State, call *ast.CallExpr) Val {
	c := env.c
	errT := types.Universe.Lookup("error").Type()
	if len(call.Args) != 3 || !isBytesReader(env, env.pkg.info.TypeOf(call.Args[0])) {
		c.trust("unspecified callee encoding/binary.Read (source is not a *bytes.Reader): error and value read are arbitrary")
		if len(call.Args) == 3 {
			if ue, ok := unparen(call.Args[2]).(*ast.UnaryExpr); ok && ue.Op == token.AND {
				if t := env.pkg.info.TypeOf(ue.X); t != nil {
					c.assign(env, ue.X, env.havoc(st, "binread", t), st)
				}
			}
		}
		return env.havoc(st, "readerr", errT)
	}
	ue, ok := unparen(call.Args[2]).(*ast.UnaryExpr)
	if !ok || ue.Op != token.AND {
		c.unsupported("binary.Read: target must be &variable")
		return env.havoc(st, "readerr", errT)
	}
	big := true
	if sel, ok := unparen(call.Args[1]).(*ast.SelectorExpr); ok && sel.Sel.Name == "LittleEndian" {
		big = false
	}
	r := env.eval(call.Args[0], st)
	posKey, data, pos, bs := bytesReaderState(env, st, r)
	tt := types.Unalias(env.subst(env.pkg.info.TypeOf(ue.X)))
	cur := env.eval(ue.X, st)
	ln := app("len_"+bs, data)
	avail := ite(app(">", ln, pos), app("-", ln, pos), "0")
	var n string
	var val Val
	byteAt := func(k string) string { return app("select", app("arr_"+bs, data), app("+", pos, k)) }
	switch u := tt.Underlying().(type) {
	case *types.Basic:
		if u.Info()&types.IsInteger == 0 {
			c.unsupported("binary.Read into %v", tt)
			return env.havoc(st, "readerr", errT)
		}
		sz := int(intBits(tt) / 8)
		n = fmt.Sprint(sz)
		var parts []string
		for i := 0; i < sz; i++ {
			shift := i
			if big {
				shift = sz - 1 - i
			}
			b := byteAt(fmt.Sprint(i))
			st.assume(and(app("<=", "0", b), app("<=", b, "255")))
			parts = append(parts, app("*", b, pow2(int64(8*shift)).String()))
		}
		if isUnsigned(tt) {
			val = Val{T: app("+", parts...), Ty: tt}
		} else {
			m, half := pow2(intBits(tt)).String(), pow2(intBits(tt)-1).String()
			val = Val{T: fmt.Sprintf("(- (mod (+ %s %s) %s) %s)", app("+", parts...), half, m, half), Ty: tt}
		}
	case *types.Slice:
		if env.sortOf(tt) != bs {
			c.unsupported("binary.Read into %v", tt)
			return env.havoc(st, "readerr", errT)
		}
		n = app("len_"+bs, cur.T)
		arr := c.fresh("readbuf", "(Array Int Int)")
		j := c.freshBound("j")
		st.assume(fmt.Sprintf("(forall ((%s Int)) (! (=> (and (<= 0 %s) (< %s %s)) (= (select %s %s) (select (arr_%s %s) (+ %s %s)))) :pattern ((select %s %s))))",
			j, j, j, n, arr, j, bs, data, pos, j, arr, j))
		st.assume(fmt.Sprintf("(forall ((%s Int)) (! (and (<= 0 (select %s %s)) (<= (select %s %s) 255)) :pattern ((select %s %s))))", j, arr, j, arr, j, arr, j))
		val = Val{T: app("mk_"+bs, arr, n), Ty: tt}
	default:
		c.unsupported("binary.Read into %v", tt)
		return env.havoc(st, "readerr", errT)
	}
	enough := app(">=", avail, n)
	errv := c.fresh("readerr", "Int")
	eof, ueof := ioErr(c, "EOF"), ioErr(c, "ErrUnexpectedEOF")
	st.assume(ite(enough, eq(errv, "0"), ite(eq(avail, "0"), eq(errv, eof), eq(errv, ueof))))
	// on failure the target is unspecified (partially filled)
	fail := env.havoc(st, "partial", tt)
	if sl, isSl := tt.Underlying().(*types.Slice); isSl {
		_ = sl
		st.assume(eq(app("len_"+bs, fail.T), n))
	}
	c.assign(env, ue.X, Val{T: ite(enough, val.T, fail.T), Ty: tt}, st)
	st.heap[posKey] = app("store", st.heap[posKey], r.T, app("+", pos, ite(enough, n, avail)))
	return Val{T: errv, Ty: errT}
}

func specIOReadAll(env *Env, recv *Val, args []Val, st *State, call *ast.CallExpr) Val {
	c := env.c
	errT := types.Universe.Lookup("error").Type()
	bt := types.NewSlice(tByte)
	if len(call.Args) == 1 && !isBytesReader(env, env.pkg.info.TypeOf(call.Args[0])) && strings.HasPrefix(env.sortOf(args[0].Ty), "If_") {
		// an io.Reader value of the io model (ghost data, pos): everything from pos on
		r := args[0]
		if ts := c.e.typeSpecForSort(env.sortOf(r.Ty)); ts != nil && ts.GhostFields["data"] != "" {
			_, posKey, data, pos, bs := readerState(env, st, r)
			rest := ioRest(env, st, data, pos)
			st.heap[posKey] = app("store", st.heap[posKey], r.T, app("len_"+bs, data))
			errv := c.fresh("readerr", "Int")
			st.assume(app(">=", errv, "0"))
			return Val{Tuple: []Val{rest, {T: errv, Ty: errT}}}
		}
	}
	if len(call.Args) != 1 || !isBytesReader(env, env.pkg.info.TypeOf(call.Args[0])) {
		c.trust("unspecified callee io.ReadAll (source is not a *bytes.Reader): results arbitrary")
		return Val{Tuple: []Val{env.havoc(st, "readall", bt), env.havoc(st, "readerr", errT)}}
	}
	r := env.eval(call.Args[0], st)
	posKey, data, pos, bs := bytesReaderState(env, st, r)
	ln := app("len_"+bs, data)
	avail := ite(app(">", ln, pos), app("-", ln, pos), "0")
	arr := c.fresh("rest", "(Array Int Int)")
	j := c.freshBound("j")
	st.assume(fmt.Sprintf("(forall ((%s Int)) (! (=> (and (<= 0 %s) (< %s %s)) (= (select %s %s) (select (arr_%s %s) (+ %s %s)))) :pattern ((select %s %s))))",
		j, j, j, avail, arr, j, bs, data, pos, j, arr, j))
	st.assume(fmt.Sprintf("(forall ((%s Int)) (! (and (<= 0 (select %s %s)) (<= (select %s %s) 255)) :pattern ((select %s %s))))", j, arr, j, arr, j, arr, j))
	st.heap[posKey] = app("store", st.heap[posKey], r.T, ite(app(">", ln, pos), ln, pos))
	return Val{Tuple: []Val{{T: app("mk_"+bs, arr, avail), Ty: bt}, {T: "0", Ty: errT}}}
}


// ioRest(data, pos): the bytes of data from pos on, as a function of (data, pos).
func ioRest(env *Env, st *State, data, pos string) Val {
	c := env.c
	bt := types.NewSlice(tByte)
	bs := env.sortOf(bt)
	fn := "io_rest"
	c.decls.declFun(fn, []string{bs, "Int"}, bs)
	c.decls.axiom(fn, fmt.Sprintf("(forall ((d %s) (p Int)) (! (=> (and (<= 0 p) (<= p (len_%s d))) (= (len_%s (%s d p)) (- (len_%s d) p))) :pattern ((%s d p))))", bs, bs, bs, fn, bs, fn))
	c.decls.axiom(fn+"/at", fmt.Sprintf("(forall ((d %s) (p Int) (j Int)) (! (=> (and (<= 0 p) (<= 0 j) (< (+ p j) (len_%s d))) (= (select (arr_%s (%s d p)) j) (select (arr_%s d) (+ p j)))) :pattern ((select (arr_%s (%s d p)) j))))", bs, bs, bs, fn, bs, bs, fn))
	return Val{T: app(fn, data, pos), Ty: bt}
}

// jsonDecoded: the value encoding/json stores for the given bytes into a variable of
// type t - an uninterpreted function of (bytes, type): decoding is deterministic.
func jsonDecoded(env *Env, data Val, t types.Type) Val {
	c := env.c
	s := env.sortOf(t)
	fn := "json_" + mangle(s)
	c.decls.declFun(fn, []string{env.sortOf(data.Ty)}, s)
	c.trust("encoding/json.Unmarshal: the decoded value is a function of the input bytes and the target type; nothing else is assumed about it")
	return Val{T: app(fn, data.T), Ty: t}
}

func specJSONUnmarshal(env *Env, recv *Val, args []Val, st *State, call *ast.CallExpr) Val {
	c := env.c
	errT := types.Universe.Lookup("error").Type()
	errv := env.havoc(st, "jsonerr", errT)
	st.assume(app(">=", errv.T, "0"))
	if len(call.Args) == 2 {
		if ue, ok := unparen(call.Args[1]).(*ast.UnaryExpr); ok && ue.Op == token.AND {
			if t := env.pkg.info.TypeOf(ue.X); t != nil {
				dec := jsonDecoded(env, args[0], t)
				env.rangeAssume(st, dec)
				fail := env.havoc(st, "jsonpartial", t)
				c.assign(env, ue.X, Val{T: ite(eq(errv.T, "0"), dec.T, fail.T), Ty: t}, st)
				return errv
			}
		}
	}
	c.trust("unspecified callee encoding/json.Unmarshal (target is not &variable): decoded value not modelled")
	return errv
}

// bytes.NewBuffer(b) used as an io.Reader: the reader's ghost data is b, position 0.
func specBytesNewBuffer(env *Env, recv *Val, args []Val, st *State, call *ast.CallExpr) Val {
	c := env.c
	rt := env.pkg.info.TypeOf(call)
	ref := env.allocRef(st, rt)
	r := Val{T: ref, Ty: rt}
	// the io.Reader view of the buffer
	var rdT types.Type
	for _, p := range c.e.pkgs {
		for _, ip := range p.Types.Imports() {
			if ip.Path() == "io" {
				if tn, ok := ip.Scope().Lookup("Reader").(*types.TypeName); ok {
					rdT = tn.Type()
				}
			}
		}
		if rdT != nil {
			break
		}
	}
	if rdT != nil {
		iv := env.coerce(r, rdT, st)
		dataKey, posKey, _, _, _ := readerState(env, st, iv)
		env.rangeAssume(st, args[0])
		st.heap[dataKey] = app("store", st.heap[dataKey], iv.T, args[0].T)
		st.heap[posKey] = app("store", st.heap[posKey], iv.T, "0")
		// the reader view of an object allocated here is outside the caller's frame
		c.frameRefs[dataKey] = append(c.frameRefs[dataKey], iv.T)
		c.frameRefs[posKey] = append(c.frameRefs[posKey], iv.T)
	}
	return r
}


// ---- path functions: uninterpreted, deterministic. Join of several elements is the left
// fold of a binary join, so Join(Join(a, b), c) and Join(a, b, c) are the same term (the real
// function cleans its result and Clean is idempotent and compositional).
func specPathJoin(env *Env, recv *Val, args []Val, st *State, call *ast.CallExpr) Val {
	c := env.c
	c.strAxioms()
	c.decls.declFun("path_join2", []string{"Str", "Str"}, "Str")
	c.trust("path/filepath functions are deterministic uninterpreted functions; Join(a, b, c) = Join(Join(a, b), c)")
	if len(args) == 0 {
		return Val{T: "str_empty", Ty: tString}
	}
	if call.Ellipsis.IsValid() {
		return env.havoc(st, "joined", tString)
	}
	acc := args[0].T
	for _, a := range args[1:] {
		acc = app("path_join2", acc, a.T)
	}
	return Val{T: acc, Ty: tString}
}

func specPathFn(fn string) specFn {
	return func(env *Env, recv *Val, args []Val, st *State, call *ast.CallExpr) Val {
		c := env.c
		c.strAxioms()
		c.decls.declFun(fn, []string{"Str"}, "Str")
		c.trust("path/filepath functions are deterministic uninterpreted functions; Join(a, b, c) = Join(Join(a, b), c)")
		return Val{T: app(fn, args[0].T), Ty: tString}
	}
}

func specPathSplit(env *Env, recv *Val, args []Val, st *State, call *ast.CallExpr) Val {
	c := env.c
	c.strAxioms()
	c.decls.declFun("path_splitdir", []string{"Str"}, "Str")
	c.decls.declFun("path_splitbase", []string{"Str"}, "Str")
	c.trust("path/filepath functions are deterministic uninterpreted functions; Join(a, b, c) = Join(Join(a, b), c)")
	return Val{Tuple: []Val{{T: app("path_splitdir", args[0].T), Ty: tString}, {T: app("path_splitbase", args[0].T), Ty: tString}}}
}


// slices.ContainsFunc(s, f): some element satisfies f. A function literal is evaluated on a
// symbolic element (it must be free of side effects); other function values are applied as
// pure functions.
func specSlicesContainsFunc(env *Env, recv *Val, args []Val, st *State, call *ast.CallExpr) Val {
	c := env.c
	sl, f := args[0], args[1]
	s := env.sortOf(sl.Ty)
	env.rangeAssume(st, sl)
	et := elemOf(sl.Ty)
	i := c.freshBound("i")
	sub := *env
	sub.noSafety = true
	sub.qvars = append(append([]string(nil), env.qvars...), fmt.Sprintf("(%s Int)", i))
	sub.qnames = append(append([]string(nil), env.qnames...), i)
	scratch := st.clone()
	n := len(scratch.pc)
	r := sub.applyFuncValue(f, []Val{{T: app("select", app("arr_"+s, sl.T), i), Ty: et}}, scratch, call)
	for _, ex := range untag(scratch.pc[n:]) {
		if strings.Contains(ex, i) {
			st.assumeOnce(fmt.Sprintf("(forall ((%s Int)) %s)", i, ex))
		} else {
			st.assumeOnce(ex)
		}
	}
	for k, v := range scratch.heap {
		if _, ok := st.heap[k]; !ok {
			st.heap[k] = v
		}
	}
	c.trust("slices.ContainsFunc: true iff the predicate holds for some element (the predicate is side-effect free)")
	return boolVal(fmt.Sprintf("(exists ((%s Int)) (and (<= 0 %s) (< %s %s) %s))", i, i, i, app("len_"+s, sl.T), r.T))
}

// specSlicesIndexFunc: the first index whose element satisfies the predicate, or -1.
func specSlicesIndexFunc(env *Env, recv *Val, args []Val, st *State, call *ast.CallExpr) Val {
	c := env.c
	sl, f := args[0], args[1]
	s := env.sortOf(sl.Ty)
	env.rangeAssume(st, sl)
	et := elemOf(sl.Ty)
	i := c.freshBound("i")
	sub := *env
	sub.noSafety = true
	sub.qvars = append(append([]string(nil), env.qvars...), fmt.Sprintf("(%s Int)", i))
	sub.qnames = append(append([]string(nil), env.qnames...), i)
	scratch := st.clone()
	n := len(scratch.pc)
	pr := sub.applyFuncValue(f, []Val{{T: app("select", app("arr_"+s, sl.T), i), Ty: et}}, scratch, call)
	for _, ex := range untag(scratch.pc[n:]) {
		if strings.Contains(ex, i) {
			st.assumeOnce(fmt.Sprintf("(forall ((%s Int)) %s)", i, ex))
		} else {
			st.assumeOnce(ex)
		}
	}
	for k, v := range scratch.heap {
		if _, ok := st.heap[k]; !ok {
			st.heap[k] = v
		}
	}
	c.trust("slices.IndexFunc: the first index whose element satisfies the predicate, or -1 (the predicate is side-effect free)")
	r := c.fresh("indexfunc", "Int")
	ln := app("len_"+s, sl.T)
	at := func(t string) string { return substToken(pr.T, i, t) }
	st.assume(and(app("<=", "(- 1)", r), app("<", r, ln)))
	st.assume(implies(app(">=", r, "0"), at(r)))
	st.assume(fmt.Sprintf("(forall ((%s Int)) (=> (and (<= 0 %s) (< %s %s) (or (< %s %s) (< %s 0))) (not %s)))", i, i, i, ln, i, r, r, pr.T))
	return Val{T: r, Ty: tInt}
}

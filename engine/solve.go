package main

import (
	"bytes"
	"context"
	"fmt"
	"math/rand"
	"os"
	"os/exec"
	"path/filepath"
	"strings"
	"sync"
	"time"
)

type SolverCfg struct {
	Dir     string
	FirstMS int64 // timeout of the first solver
	RaceMS  int64 // timeout of the fallback race
	Second  bool  // thorough: re-discharge by a second, different solver
	CoverMS int64
	HeadMS  int64 // head start of the first solver before the others join the race
	Workers int
	Seed    int
}

func (e *Engine) query(o *Obligation, getModel bool, cvc bool) string {
	var b strings.Builder
	if cvc {
		b.WriteString("(set-option :produce-models true)\n")
	}
	b.WriteString("(set-logic ALL)\n")
	if !cvc {
		b.WriteString("(set-option :smt.mbqi true)\n")
	}
	for _, d := range e.types.decls {
		b.WriteString(d)
		b.WriteByte('\n')
	}
	for _, d := range o.Decls.lines {
		b.WriteString(d)
		b.WriteByte('\n')
	}
	for _, a := range o.Decls.axioms {
		fmt.Fprintf(&b, "(assert %s)\n", a)
	}
	for _, a := range o.Assume {
		fmt.Fprintf(&b, "(assert %s)\n", a)
	}
	fmt.Fprintf(&b, "(assert (not %s))\n", o.Goal)
	b.WriteString("(check-sat)\n")
	if getModel {
		b.WriteString("(get-model)\n")
	}
	return b.String()
}

type solverRun struct {
	name   string
	status string
	out    string
	ms     int64
}

func runSolver(ctx context.Context, name, file string, timeoutMS int64) solverRun {
	var cmd *exec.Cmd
	sec := (timeoutMS + 999) / 1000
	switch name {
	case "z3-new":
		cmd = exec.CommandContext(ctx, "z3-new", fmt.Sprintf("-T:%d", sec), file)
	case "z3":
		cmd = exec.CommandContext(ctx, "z3", fmt.Sprintf("-T:%d", sec), file)
	case "cvc5":
		cmd = exec.CommandContext(ctx, "cvc5", fmt.Sprintf("--tlimit=%d", timeoutMS), file)
	}
	var out bytes.Buffer
	cmd.Stdout = &out
	cmd.Stderr = &out
	t0 := time.Now()
	_ = cmd.Run()
	r := solverRun{name: name, out: out.String(), ms: time.Since(t0).Milliseconds()}
	first := ""
	for _, l := range strings.Split(r.out, "\n") {
		l = strings.TrimSpace(l)
		if l == "" || strings.HasPrefix(l, "WARNING") || strings.HasPrefix(l, "(warning") {
			continue
		}
		first = l
		break
	}
	switch first {
	case "unsat", "sat", "unknown":
		r.status = first
	case "timeout":
		r.status = "timeout"
	default:
		if ctx.Err() != nil {
			r.status = "cancelled"
		} else if strings.Contains(r.out, "timeout") || strings.Contains(r.out, "interrupted") {
			r.status = "timeout"
		} else {
			r.status = "error"
		}
	}
	return r
}

func safeName(s string) string {
	return strings.Map(func(r rune) rune {
		if r >= 'a' && r <= 'z' || r >= 'A' && r <= 'Z' || r >= '0' && r <= '9' || r == '.' || r == '-' || r == '_' {
			return r
		}
		return '_'
	}, s)
}

// discharge decides one obligation. For proof obligations unsat = proved; for covers sat = ok.
func (e *Engine) discharge(o *Obligation, cfg *SolverCfg) {
	base := filepath.Join(cfg.Dir, fmt.Sprintf("%05d_%s", o.Seq, safeName(o.Name)))
	fz := base + ".smt2"
	os.WriteFile(fz, []byte(e.query(o, false, false)), 0o644)
	t0 := time.Now()
	defer func() { o.TimeMS = time.Since(t0).Milliseconds() }()
	if o.Goal == "true" && !o.Cover {
		o.Status, o.Solver = "unsat", "trivial"
		return
	}
	fms := cfg.FirstMS
	if o.Cover {
		fms = cfg.CoverMS
	}
	if !o.Cover {
		fms = cfg.HeadMS
	}
	first := runSolver(context.Background(), "z3-new", fz, fms)
	if o.Cover {
		// vacuity guard: a definite unsat from ANY solver is a failure; sat from any is reassuring
		o.Status, o.Solver = first.status, first.name
		if first.status != "sat" && first.status != "unsat" {
			fc := base + ".cvc5.smt2"
			os.WriteFile(fc, []byte(e.query(o, false, true)), 0o644)
			ctx, cancel := context.WithCancel(context.Background())
			ch := make(chan solverRun, 2)
			go func() { ch <- runSolver(ctx, "z3", fz, cfg.CoverMS) }()
			go func() { ch <- runSolver(ctx, "cvc5", fc, cfg.CoverMS) }()
			for i := 0; i < 2; i++ {
				r := <-ch
				if r.status == "unsat" || (r.status == "sat" && o.Status != "unsat") {
					o.Status, o.Solver = r.status, r.name
				}
			}
			cancel()
		}
		return
	}
	decided := func(r solverRun) bool { return r.status == "unsat" || r.status == "sat" }
	res := first
	if !decided(first) {
		res = e.race(o, base, fz, cfg)
	}
	if !decided(res) {
		// perturbation round: quantifier instantiation is sensitive to the order of the
		// assertions; the same query with its assumptions permuted (fixed seeds, so runs are
		// reproducible) is raced on both z3 versions. Any unsat is a proof.
		if r := e.perturb(o, base, cfg); decided(r) {
			res = r
		}
	}
	o.Status, o.Solver = res.status, res.name
	if res.status == "sat" {
		// obtain a model
		fm := base + ".model.smt2"
		os.WriteFile(fm, []byte(e.query(o, true, strings.HasPrefix(res.name, "cvc5"))), 0o644)
		base, _, _ := strings.Cut(res.name, "/")
		m := runSolver(context.Background(), base, fm, cfg.RaceMS)
		o.Model = m.out
	} else if res.status != "unsat" {
		o.Model = res.out
	}
	if cfg.Second && o.Status == "unsat" {
		others := []string{"z3", "cvc5", "z3-new"}
		for _, s := range others {
			if s == o.Solver {
				continue
			}
			f := fz
			if s == "cvc5" {
				f = base + ".cvc5.smt2"
				os.WriteFile(f, []byte(e.query(o, false, true)), 0o644)
			}
			r := runSolver(context.Background(), s, f, cfg.FirstMS)
			if r.status == "unsat" {
				o.Second = s
				break
			}
			if r.status == "sat" {
				// disagreement between solvers: never count as proved
				o.Status = "disagree"
				o.Model = "solver " + s + " answered sat while " + o.Solver + " answered unsat\n" + r.out
				break
			}
		}
	}
}

func (e *Engine) perturb(o *Obligation, base string, cfg *SolverCfg) solverRun {
	ctx, cancel := context.WithCancel(context.Background())
	defer cancel()
	type variant struct {
		solver string
		seed   int64
	}
	vs := []variant{{"z3-new", 1}, {"z3", 1}, {"z3-new", 2}, {"z3", 2}}
	ch := make(chan solverRun, len(vs))
	for _, v := range vs {
		v := v
		f := fmt.Sprintf("%s.p%d.smt2", base, v.seed)
		if _, err := os.Stat(f); err != nil {
			p := *o
			p.Assume = append([]string(nil), o.Assume...)
			rand.New(rand.NewSource(v.seed)).Shuffle(len(p.Assume), func(i, j int) { p.Assume[i], p.Assume[j] = p.Assume[j], p.Assume[i] })
			os.WriteFile(f, []byte(e.query(&p, false, false)), 0o644)
		}
		go func() {
			r := runSolver(ctx, v.solver, f, cfg.RaceMS/2)
			r.name = fmt.Sprintf("%s/perm%d", v.solver, v.seed)
			ch <- r
		}()
	}
	var res solverRun
	for range vs {
		r := <-ch
		if r.status == "unsat" || r.status == "sat" {
			return r
		}
		res = r
	}
	return res
}

func (e *Engine) dischargeAll(obls []*Obligation, cfg *SolverCfg) {
	os.MkdirAll(cfg.Dir, 0o755)
	var wg sync.WaitGroup
	ch := make(chan *Obligation)
	for i := 0; i < cfg.Workers; i++ {
		wg.Add(1)
		go func() {
			defer wg.Done()
			for o := range ch {
				e.discharge(o, cfg)
			}
		}()
	}
	for i, o := range obls {
		o.Seq = i // unique file names even if two obligations share a name
		ch <- o
	}
	close(ch)
	wg.Wait()
}

// race runs all three solvers concurrently and returns the first decided answer.
func (e *Engine) race(o *Obligation, base, fz string, cfg *SolverCfg) solverRun {
	fc := base + ".cvc5.smt2"
	os.WriteFile(fc, []byte(e.query(o, false, true)), 0o644)
	ctx, cancel := context.WithCancel(context.Background())
	defer cancel()
	ch := make(chan solverRun, 3)
	go func() { ch <- runSolver(ctx, "z3-new", fz, cfg.RaceMS) }()
	go func() { ch <- runSolver(ctx, "z3", fz, cfg.RaceMS) }()
	go func() { ch <- runSolver(ctx, "cvc5", fc, cfg.RaceMS) }()
	var res solverRun
	for i := 0; i < 3; i++ {
		r := <-ch
		if r.status == "unsat" || r.status == "sat" {
			return r
		}
		if res.status == "" || res.status == "error" || res.status == "cancelled" {
			res = r
		}
	}
	return res
}

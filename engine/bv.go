package main

import (
	"math/big"
	"fmt"
	"go/ast"
	"go/token"
	"go/types"
)

// bit-vector mode: exact machine semantics for functions marked `mode bv`.
func (env *Env) evalBinaryBV(x *ast.BinaryExpr, a, b Val, st *State) Val {
	ty := arithType(a, b)
	bits := intBits(ty)
	a = env.coerce(a, ty, st)
	if x.Op != token.SHL && x.Op != token.SHR {
		b = env.coerce(b, ty, st)
	} else {
		// shift count: bring to the operand width
		if n, ok := bvConst(b.T); ok {
			b = Val{T: bvLit(bigInt(n), bits), Ty: ty}
		} else {
			b = env.convertBV(b, a.Ty)
		}
		ty = a.Ty
		bits = intBits(ty)
	}
	uns := isUnsigned(ty)
	pick := func(s, u string) string {
		if uns {
			return u
		}
		return s
	}
	switch x.Op {
	case token.EQL:
		return boolVal(eq(a.T, b.T))
	case token.NEQ:
		return boolVal(not(eq(a.T, b.T)))
	case token.LSS:
		return boolVal(app(pick("bvslt", "bvult"), a.T, b.T))
	case token.LEQ:
		return boolVal(app(pick("bvsle", "bvule"), a.T, b.T))
	case token.GTR:
		return boolVal(app(pick("bvsgt", "bvugt"), a.T, b.T))
	case token.GEQ:
		return boolVal(app(pick("bvsge", "bvuge"), a.T, b.T))
	case token.ADD:
		return Val{T: app("bvadd", a.T, b.T), Ty: ty}
	case token.SUB:
		return Val{T: app("bvsub", a.T, b.T), Ty: ty}
	case token.MUL:
		return Val{T: app("bvmul", a.T, b.T), Ty: ty}
	case token.QUO:
		return Val{T: app(pick("bvsdiv", "bvudiv"), a.T, b.T), Ty: ty}
	case token.REM:
		return Val{T: app(pick("bvsrem", "bvurem"), a.T, b.T), Ty: ty}
	case token.AND:
		return Val{T: app("bvand", a.T, b.T), Ty: ty}
	case token.OR:
		return Val{T: app("bvor", a.T, b.T), Ty: ty}
	case token.XOR:
		return Val{T: app("bvxor", a.T, b.T), Ty: ty}
	case token.SHL:
		return Val{T: app("bvshl", a.T, b.T), Ty: ty}
	case token.SHR:
		return Val{T: app(pick("bvashr", "bvlshr"), a.T, b.T), Ty: ty}
	}
	env.c.unsupported("bv op %s", x.Op)
	return a
}

func (env *Env) convertBV(v Val, to types.Type) Val {
	fb, tb := intBits(v.Ty), intBits(to)
	if n, ok := isConstInt(v.T); ok {
		return Val{T: bvLit(n, tb), Ty: to}
	}
	switch {
	case fb == tb:
		return Val{T: v.T, Ty: to}
	case fb > tb:
		return Val{T: fmt.Sprintf("((_ extract %d 0) %s)", tb-1, v.T), Ty: to}
	default:
		if isUnsigned(v.Ty) {
			return Val{T: fmt.Sprintf("((_ zero_extend %d) %s)", tb-fb, v.T), Ty: to}
		}
		return Val{T: fmt.Sprintf("((_ sign_extend %d) %s)", tb-fb, v.T), Ty: to}
	}
}

func bigInt(n int64) *big.Int { return big.NewInt(n) }

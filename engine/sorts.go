package main

import (
	"fmt"
	"go/types"
	"math/big"
	"strings"
)

// TypeTable maps Go types to SMT sorts (mathematical-integer mode).
//
//	integers, time.Duration, time.Time -> Int      bool -> Bool       string -> Str (uninterpreted)
//	[]E, [n]E -> datatype Sl_<E> (arr (Array Int E)) (off Int) (len Int)
//	struct    -> datatype St_<name> with one selector per field
//	*T        -> Int (reference, 0 = nil); fields live in per-field heap arrays
//	map[K]V   -> datatype Mp_<K>_<V> (mv (Array K V)) (mh (Array K Bool)) (mc Int)
//	error     -> Int (0 = nil)
//	interfaces, type parameters, funcs, chans -> uninterpreted sorts
type TypeTable struct {
	e       *Engine
	decls   []string
	done    map[string]bool
	structs map[string]*types.Struct
	named   map[string]string
}

func newTypeTable(e *Engine) *TypeTable {
	t := &TypeTable{e: e, done: map[string]bool{}, structs: map[string]*types.Struct{}, named: map[string]string{}}
	t.decls = append(t.decls, "(declare-sort Str 0)")
	return t
}

func mangle(s string) string {
	r := strings.NewReplacer("reduction.dev/reduction/", "", "/", "_", ".", "_", "*", "P", "[", "L", "]", "R", " ", "", ",", "_", "(", "", ")", "", "{", "", "}", "", ";", "_", "-", "_", "~", "")
	return r.Replace(s)
}

func isTime(t types.Type) bool {
	if n, ok := t.(*types.Named); ok {
		o := n.Obj()
		return o.Pkg() != nil && o.Pkg().Path() == "time" && o.Name() == "Time"
	}
	return false
}

func isErrorType(t types.Type) bool {
	if n, ok := t.(*types.Named); ok {
		return n.Obj().Pkg() == nil && n.Obj().Name() == "error"
	}
	return false
}

func isMutex(t types.Type) bool {
	if n, ok := t.(*types.Named); ok {
		o := n.Obj()
		return o.Pkg() != nil && o.Pkg().Path() == "sync" && (o.Name() == "Mutex" || o.Name() == "RWMutex")
	}
	return false
}

func (tt *TypeTable) sortOf(t types.Type) string {
	t = types.Unalias(t)
	if isTime(t) {
		return "Int"
	}
	if isErrorType(t) {
		return "Int"
	}
	switch x := t.(type) {
	case *types.Named:
		if _, ok := x.Underlying().(*types.Struct); ok {
			if p := x.Obj().Pkg(); p != nil && !strings.HasPrefix(p.Path(), "reduction.dev/reduction") {
				// library struct: opaque
				return tt.usort("Ext_" + mangle(p.Path()+"."+x.Obj().Name()))
			}
			return tt.structSort(x)
		}
		if _, ok := x.Underlying().(*types.Interface); ok {
			return tt.usort("If_" + mangle(types.TypeString(x, nil)))
		}
		return tt.sortOf(x.Underlying())
	case *types.Basic:
		switch {
		case x.Info()&types.IsBoolean != 0:
			return "Bool"
		case x.Info()&types.IsInteger != 0:
			return "Int"
		case x.Info()&types.IsString != 0:
			return "Str"
		case x.Info()&types.IsFloat != 0:
			return "Real"
		case x.Kind() == types.UntypedNil:
			return "Int"
		case x.Kind() == types.UnsafePointer:
			return "Int"
		}
		return tt.usort("B_" + mangle(x.Name()))
	case *types.Pointer:
		return "Int"
	case *types.Slice:
		return tt.sliceSort(x.Elem())
	case *types.Array:
		return tt.sliceSort(x.Elem())
	case *types.Map:
		return tt.mapSort(x.Key(), x.Elem())
	case *types.Struct:
		return tt.anonStructSort(x)
	case *types.TypeParam:
		if ct := coreType(x); ct != nil {
			return tt.sortOf(ct)
		}
		return tt.usort("Tp_" + mangle(x.Obj().Name()))
	case *types.Interface:
		return tt.usort("If_" + mangle(types.TypeString(x, nil)))
	case *types.Signature:
		return tt.usort("Fn_" + mangle(types.TypeString(x, nil)))
	case *types.Chan:
		return "Int"
	case *types.Tuple:
		return "Int"
	}
	return tt.usort("X_" + mangle(types.TypeString(t, nil)))
}

func (tt *TypeTable) usort(name string) string {
	if !tt.done[name] {
		tt.done[name] = true
		tt.decls = append(tt.decls, fmt.Sprintf("(declare-sort %s 0)", name))
		tt.decls = append(tt.decls, fmt.Sprintf("(declare-const nil_%s %s)", name, name))
	}
	return name
}

func (tt *TypeTable) sliceSort(elem types.Type) string {
	es := tt.sortOf(elem)
	name := "Sl_" + mangle(es)
	if !tt.done[name] {
		tt.done[name] = true
		tt.decls = append(tt.decls, fmt.Sprintf("(declare-datatypes ((%s 0)) (((mk_%s (arr_%s (Array Int %s)) (len_%s Int)))))", name, name, name, es, name))
	}
	return name
}

func (tt *TypeTable) mapSort(k, v types.Type) string {
	ks, vs := tt.sortOf(k), tt.sortOf(v)
	name := "Mp_" + mangle(ks) + "_" + mangle(vs)
	if !tt.done[name] {
		tt.done[name] = true
		tt.decls = append(tt.decls, fmt.Sprintf("(declare-datatypes ((%s 0)) (((mk_%s (mv_%s (Array %s %s)) (mh_%s (Array %s Bool)) (mc_%s Int)))))", name, name, name, ks, vs, name, ks, name))
	}
	return name
}

func (tt *TypeTable) structName(n *types.Named) string {
	s := n.Obj().Name()
	if n.Obj().Pkg() != nil {
		s = n.Obj().Pkg().Name() + "_" + s
	}
	if ta := n.TypeArgs(); ta != nil && ta.Len() > 0 {
		for i := 0; i < ta.Len(); i++ {
			s += "_" + mangle(tt.sortOf(ta.At(i)))
		}
	}
	// a type declared inside a function: two functions of a package may declare local types of
	// the same name with different fields (sst.NewTable / sst.NewTableFromDocument: CleanupParams)
	if o := n.Obj(); o.Pkg() != nil && o.Parent() != nil && o.Parent() != o.Pkg().Scope() && o.Parent() != types.Universe {
		s += fmt.Sprintf("_local%d", int(o.Pos()))
	}
	return "St_" + mangle(s)
}

func (tt *TypeTable) structSort(n *types.Named) string {
	name := tt.structName(n)
	if tt.done[name] {
		return name
	}
	tt.done[name] = true
	st := n.Underlying().(*types.Struct)
	tt.structs[name] = st
	tt.emitStruct(name, st)
	return name
}

func (tt *TypeTable) anonStructSort(st *types.Struct) string {
	name := "St_anon_" + mangle(types.TypeString(st, nil))
	if len(name) > 80 {
		name = name[:80]
	}
	if tt.done[name] {
		return name
	}
	tt.done[name] = true
	tt.structs[name] = st
	tt.emitStruct(name, st)
	return name
}

func (tt *TypeTable) emitStruct(name string, st *types.Struct) {
	var fs []string
	for i := 0; i < st.NumFields(); i++ {
		f := st.Field(i)
		fs = append(fs, fmt.Sprintf("(%s %s)", fieldSel(name, f.Name()), tt.fieldSort(f.Type())))
		projIndex[fieldSel(name, f.Name())] = i
	}
	if len(fs) == 0 {
		fs = append(fs, fmt.Sprintf("(%s Int)", fieldSel(name, "_unit")))
	}
	tt.decls = append(tt.decls, fmt.Sprintf("(declare-datatypes ((%s 0)) (((mk_%s %s))))", name, name, strings.Join(fs, " ")))
}

// fieldSort is sortOf, except that it guards against recursive value types.
func (tt *TypeTable) fieldSort(t types.Type) string { return tt.sortOf(t) }

func fieldSel(structSort, field string) string { return "f_" + structSort + "_" + field }

// integer ranges
func intRange(t types.Type) (lo, hi *big.Int, ok bool) {
	t = types.Unalias(t)
	if isTime(t) {
		return nil, nil, false
	}
	b, isB := t.Underlying().(*types.Basic)
	if !isB || b.Info()&types.IsInteger == 0 {
		return nil, nil, false
	}
	two := big.NewInt(2)
	pow := func(n int64) *big.Int { return new(big.Int).Exp(two, big.NewInt(n), nil) }
	switch b.Kind() {
	case types.Int8:
		return new(big.Int).Neg(pow(7)), new(big.Int).Sub(pow(7), big.NewInt(1)), true
	case types.Int16:
		return new(big.Int).Neg(pow(15)), new(big.Int).Sub(pow(15), big.NewInt(1)), true
	case types.Int32:
		return new(big.Int).Neg(pow(31)), new(big.Int).Sub(pow(31), big.NewInt(1)), true
	case types.Int, types.Int64:
		return new(big.Int).Neg(pow(63)), new(big.Int).Sub(pow(63), big.NewInt(1)), true
	case types.Uint8:
		return big.NewInt(0), new(big.Int).Sub(pow(8), big.NewInt(1)), true
	case types.Uint16:
		return big.NewInt(0), new(big.Int).Sub(pow(16), big.NewInt(1)), true
	case types.Uint32:
		return big.NewInt(0), new(big.Int).Sub(pow(32), big.NewInt(1)), true
	case types.Uint, types.Uint64, types.Uintptr:
		return big.NewInt(0), new(big.Int).Sub(pow(64), big.NewInt(1)), true
	}
	return nil, nil, false
}

func isUnsigned(t types.Type) bool {
	b, ok := types.Unalias(t).Underlying().(*types.Basic)
	return ok && b.Info()&types.IsUnsigned != 0
}

func isInteger(t types.Type) bool {
	if isTime(t) {
		return false
	}
	b, ok := types.Unalias(t).Underlying().(*types.Basic)
	return ok && b.Info()&types.IsInteger != 0
}

func intBits(t types.Type) int64 {
	b, ok := types.Unalias(t).Underlying().(*types.Basic)
	if !ok {
		return 64
	}
	switch b.Kind() {
	case types.Int8, types.Uint8:
		return 8
	case types.Int16, types.Uint16:
		return 16
	case types.Int32, types.Uint32:
		return 32
	}
	return 64
}

func smtInt(n *big.Int) string {
	if n.Sign() < 0 {
		return "(- " + new(big.Int).Neg(n).String() + ")"
	}
	return n.String()
}

func pow2(n int64) *big.Int { return new(big.Int).Exp(big.NewInt(2), big.NewInt(n), nil) }

package main

import (
	"encoding/json"
	"fmt"
	"go/ast"
	"go/token"
	"go/types"
	"os"
	"path/filepath"
	"sort"
	"strings"

	"golang.org/x/tools/go/packages"
)

// Engine holds everything loaded from /repo's current working tree.
type Engine struct {
	repo    string
	overlayPath string
	fset    *token.FileSet
	pkgs    map[string]*packages.Package
	funcs   map[string]*FuncInfo // key: "<pkgname>.<Recv>.<Name>" or "<pkgname>.<Name>"
	byObj   map[*types.Func]*FuncInfo
	types   *TypeTable
	lemmas  []*Lemma
	typeSpecs map[string]*TypeSpec // "<pkgname>.<Type>"
	trusted map[string]bool      // assumptions used (reported in evidence)
	ghostTypes map[string]types.Type
	loadErrs []string
	curProp  string // property being checked (clauses can be scoped to properties)
}

type FuncInfo struct {
	Key      string
	Pkg      *packages.Package
	Decl     *ast.FuncDecl
	Obj      *types.Func
	Contract *Contract
	Ghost    bool
	File     string
}

func modulePath(repo string) string {
	b, err := os.ReadFile(filepath.Join(repo, "go.mod"))
	if err != nil {
		return ""
	}
	for _, l := range strings.Split(string(b), "\n") {
		if strings.HasPrefix(l, "module ") {
			return strings.TrimSpace(strings.TrimPrefix(l, "module "))
		}
	}
	return ""
}

// loadOverlay reads a go build overlay json (Replace: path -> file) into a map of contents.
func loadOverlay(path string) map[string][]byte {
	overlay := map[string][]byte{}
	if path == "" {
		return overlay
	}
	var ov struct{ Replace map[string]string }
	b, err := os.ReadFile(path)
	if err != nil {
		fatal("overlay: %v", err)
	}
	if err := json.Unmarshal(b, &ov); err != nil {
		fatal("overlay: %v", err)
	}
	for k, v := range ov.Replace {
		d, err := os.ReadFile(v)
		if err != nil {
			fatal("overlay file: %v", err)
		}
		overlay[k] = d
	}
	return overlay
}

func fatal(format string, a ...any) {
	fmt.Fprintf(os.Stderr, "BROKEN-CHECK "+format+"\n", a...)
	os.Exit(2)
}

func load(repo string, overlayPath string, patterns []string) *Engine {
	e := &Engine{repo: repo, overlayPath: overlayPath, pkgs: map[string]*packages.Package{}, funcs: map[string]*FuncInfo{},
		byObj: map[*types.Func]*FuncInfo{}, trusted: map[string]bool{}, typeSpecs: map[string]*TypeSpec{}, ghostTypes: map[string]types.Type{}}
	e.fset = token.NewFileSet()
	cfg := &packages.Config{
		Mode: packages.NeedName | packages.NeedFiles | packages.NeedSyntax | packages.NeedTypes |
			packages.NeedTypesInfo | packages.NeedImports | packages.NeedDeps | packages.NeedCompiledGoFiles,
		Dir: repo, Fset: e.fset, Overlay: loadOverlay(overlayPath),
		BuildFlags: []string{"-tags=verif", "-mod=mod"},
		Env:        append(os.Environ(), "GOFLAGS=-mod=mod", "GOPROXY=off"),
	}
	pkgs, err := packages.Load(cfg, patterns...)
	if err != nil {
		fatal("load: %v", err)
	}
	mod := modulePath(repo)
	var visit func(p *packages.Package)
	seen := map[string]bool{}
	visit = func(p *packages.Package) {
		if seen[p.PkgPath] {
			return
		}
		seen[p.PkgPath] = true
		if strings.HasPrefix(p.PkgPath, mod) {
			e.pkgs[p.PkgPath] = p
			for _, er := range p.Errors {
				e.loadErrs = append(e.loadErrs, er.Error())
			}
		}
		for _, ip := range p.Imports {
			if strings.HasPrefix(ip.PkgPath, mod) {
				visit(ip)
			}
		}
	}
	for _, p := range pkgs {
		visit(p)
	}
	e.types = newTypeTable(e)
	paths := []string{}
	for p := range e.pkgs {
		paths = append(paths, p)
	}
	sort.Strings(paths)
	for _, pp := range paths {
		p := e.pkgs[pp]
		for i, f := range p.Syntax {
			fname := ""
			if i < len(p.CompiledGoFiles) {
				fname = p.CompiledGoFiles[i]
			}
			isVerif := strings.HasSuffix(fname, "_verif.go")
			for _, d := range f.Decls {
				fd, ok := d.(*ast.FuncDecl)
				if !ok {
					continue
				}
				obj, _ := p.TypesInfo.Defs[fd.Name].(*types.Func)
				if obj == nil {
					continue
				}
				fi := &FuncInfo{Key: funcKey(p.Name, fd), Pkg: p, Decl: fd, Obj: obj, Ghost: isVerif, File: fname}
				e.funcs[fi.Key] = fi
				e.byObj[obj] = fi
			}
			if isVerif {
				e.parseContractFile(p, f, fname)
			}
		}
	}
	return e
}

func recvTypeName(fd *ast.FuncDecl) string {
	if fd.Recv == nil || len(fd.Recv.List) == 0 {
		return ""
	}
	t := fd.Recv.List[0].Type
	for {
		switch x := t.(type) {
		case *ast.StarExpr:
			t = x.X
			continue
		case *ast.IndexExpr:
			t = x.X
			continue
		case *ast.IndexListExpr:
			t = x.X
			continue
		case *ast.ParenExpr:
			t = x.X
			continue
		case *ast.Ident:
			return x.Name
		}
		return ""
	}
}

func funcKey(pkgName string, fd *ast.FuncDecl) string {
	if r := recvTypeName(fd); r != "" {
		return pkgName + "." + r + "." + fd.Name.Name
	}
	return pkgName + "." + fd.Name.Name
}

func (e *Engine) lookupFunc(obj *types.Func) *FuncInfo {
	if obj == nil {
		return nil
	}
	if fi, ok := e.byObj[obj]; ok {
		return fi
	}
	if o := obj.Origin(); o != obj {
		if fi, ok := e.byObj[o]; ok {
			return fi
		}
	}
	return nil
}

func (e *Engine) pos(p token.Pos) string {
	po := e.fset.Position(p)
	return fmt.Sprintf("%s:%d", strings.TrimPrefix(po.Filename, e.repo+"/"), po.Line)
}

package main

import (
	"strconv"
	"fmt"
	"go/ast"
	"go/token"
	"go/types"
	"sort"
	"strings"
)

func (env *Env) evalArgs(args []ast.Expr, st *State) []Val {
	var out []Val
	for _, a := range args {
		v := env.eval(a, st)
		if len(v.Tuple) > 0 && len(args) == 1 {
			return v.Tuple
		}
		out = append(out, v)
	}
	return out
}

func unparen(e ast.Expr) ast.Expr {
	for {
		p, ok := e.(*ast.ParenExpr)
		if !ok {
			return e
		}
		e = p.X
	}
}

func (env *Env) evalCall(x *ast.CallExpr, st *State) Val {
	fun := unparen(x.Fun)
	// generic instantiation brackets
	if ix, ok := fun.(*ast.IndexExpr); ok && !env.contract {
		if tv, ok := env.pkg.info.Types[ix.X]; ok && !tv.IsType() {
			if _, isSig := tv.Type.Underlying().(*types.Signature); isSig {
				fun = ix.X
			}
		}
	}
	if ix, ok := fun.(*ast.IndexListExpr); ok {
		fun = ix.X
	}

	// contract-language builtins
	if id, ok := fun.(*ast.Ident); ok {
		if _, shadow := env.bound[id.Name]; !shadow {
			switch id.Name {
			case "old":
				if env.old == nil {
					return env.eval(x.Args[0], st)
				}
				sub := *env
				sub.old = nil
				sub.oldMode = true
				// evaluate in the old state, but keep assumptions on the current path
				os := env.old.clone()
				os.pc = st.pc
				os.seen = st.seen
				v := sub.eval(x.Args[0], os)
				st.pc = os.pc
				return v
			case "atentry":
				// atentry(e): value of e when the innermost loop was entered
				if env.loopPre == nil {
					return env.eval(x.Args[0], st)
				}
				sub := *env
				sub.loopPre = nil
				ps := env.loopPre.clone()
				ps.pc = st.pc
				ps.seen = st.seen
				v := sub.eval(x.Args[0], ps)
				st.pc = ps.pc
				return v
			case "forall", "exists":
				return env.evalQuant(id.Name, x, st)
			case "ite":
				cnd := env.evalBool(x.Args[0], st)
				a := env.eval(x.Args[1], st)
				b := env.eval(x.Args[2], st)
				ty := arithType(a, b)
				return Val{T: ite(cnd, env.coerce(a, ty, st).T, env.coerce(b, ty, st).T), Ty: ty}
			case "fresh":
				v := env.eval(x.Args[0], st)
				c := env.c
				if env.callerSide {
					// at a call site: the callee's result is a new object
					c.freshFacts(env, st, v.T)
					c.freshList = append(c.freshList, v.T)
					c.freshRefs[v.T] = true
					return boolVal(fmt.Sprintf("(> %s 0)", v.T))
				}
				var alts []string
				for _, f := range c.freshList {
					alts = append(alts, eq(v.T, f))
				}
				return boolVal(or(alts...))
			case "indexof":
				// indexof(s, x): first index of x in slice s, or -1
				sl := env.eval(x.Args[0], st)
				xv := env.eval(x.Args[1], st)
				c := env.c
				ss := env.sortOf(sl.Ty)
				es := env.sortOf(elemOf(sl.Ty))
				xv = env.coerce(xv, elemOf(sl.Ty), st)
				fn := "idxof_" + ss
				c.decls.declFun(fn, []string{ss, es}, "Int")
				c.decls.axiom(fn+"/def", fmt.Sprintf("(forall ((s %s) (x %s)) (! (and (<= (- 1) (%s s x)) (=> (<= 0 (%s s x)) (and (< (%s s x) (len_%s s)) (= (select (arr_%s s) (%s s x)) x)))) :pattern ((%s s x))))", ss, es, fn, fn, fn, ss, ss, fn, fn))
				c.decls.axiom(fn+"/first", fmt.Sprintf("(forall ((s %s) (k Int)) (! (=> (and (<= 0 k) (< k (len_%s s))) (and (<= 0 (%s s (select (arr_%s s) k))) (<= (%s s (select (arr_%s s) k)) k))) :pattern ((%s s (select (arr_%s s) k)))))", ss, ss, fn, ss, fn, ss, fn, ss))
				c.trust("indexof(s, x) is the first index of x in s or -1 (definitional axioms)")
				return intVal(app(fn, sl.T, xv.T))
			case "hasprefix":
				a := env.eval(x.Args[0], st)
				b := env.eval(x.Args[1], st)
				return specBytesHasPrefix(env, nil, []Val{a, b}, st, x)
			case "remaining":
				// remaining(r): what io.ReadAll(r) returns for an io.Reader r (ghost data from pos)
				r := env.eval(x.Args[0], st)
				_, _, data, pos, _ := readerState(env, st, r)
				return ioRest(env, st, data, pos)
			case "trig":
				// trig(t1, t2, ...): instantiation pattern of the enclosing quantifier; value true
				if env.trigs != nil {
					var ts []string
					for _, a := range x.Args {
						ts = append(ts, env.eval(a, st).T)
					}
					*env.trigs = append(*env.trigs, strings.Join(ts, " "))
				}
				return boolVal("true")
			case "rankof":
				// rankof(f, x): the position of x in the total preorder decided by the comparator f,
				// as a real number. A specification that assumes sign(f(a, b)) == sign(rankof(f, a) -
				// rankof(f, b)) for all a, b assumes exactly that f is a sign-consistent total
				// preorder (every total preorder on a countable set embeds in the rationals); the
				// embedding turns transitivity chains into arithmetic the solver decides.
				f := env.eval(x.Args[0], st)
				v := env.eval(x.Args[1], st)
				fs, vs := env.sortOf(f.Ty), env.sortOf(v.Ty)
				name := "rank_" + mangle(fs) + "_" + mangle(vs)
				env.c.decls.declFun(name, []string{fs, vs}, "Real")
				return Val{T: app(name, f.T, v.T), Ty: types.Typ[types.Float64]}
			case "jsonof":
				// jsonof(data, T{}): the value json.Unmarshal stores for these bytes in a T
				d := env.eval(x.Args[0], st)
				t := env.typeOfExpr(x.Args[1])
				if cl, ok := unparen(x.Args[1]).(*ast.CompositeLit); ok && cl.Type != nil {
					t = env.typeOfExpr(cl.Type)
				}
				return jsonDecoded(env, d, t)
			case "held":
				// held(x.mu): the mutex is held at this point of the path
				if env.callerSide {
					return boolVal("true")
				}
				if sel, ok := unparen(x.Args[0]).(*ast.SelectorExpr); ok {
					base := env.eval(sel.X, st)
					if st.held[base.T+"."+sel.Sel.Name] || st.held["*."+sel.Sel.Name] {
						return boolVal("true")
					}
				}
				return boolVal("false")
			case "called":
				// called(Name): a call of Name happened on the path that reached this point
				// (loops forget the calls of their bodies: use it for straight-line code)
				if env.callerSide {
					// in a callee's postcondition, seen from a call site: about the callee's own
					// calls, nothing the caller can use
					return boolVal("true")
				}
				want := ""
				if id, ok := unparen(x.Args[0]).(*ast.Ident); ok {
					want = id.Name
				} else if bl, ok := unparen(x.Args[0]).(*ast.BasicLit); ok && bl.Kind == token.STRING {
					// called("send:ch") / called("recv:ch"): channel operations (see chanOp)
					want, _ = strconv.Unquote(bl.Value)
				}
				base := env.callBase
				if base > len(st.calls) {
					base = len(st.calls)
				}
				for _, p := range st.calls[base:] {
					if want != "" && p == want {
						return boolVal("true")
					}
				}
				return boolVal("false")
			case "inloop":
				// inloop(N): the statement this clause is evaluated at (the call of an atcall clause)
				// lies inside the body of loop N of the function under verification
				if bl, ok := unparen(x.Args[0]).(*ast.BasicLit); ok && bl.Kind == token.INT {
					n, _ := strconv.Atoi(bl.Value)
					for stmt, k := range env.c.loopIndex {
						if k == n && stmt.Pos() <= env.scopePos && env.scopePos < stmt.End() {
							return boolVal("true")
						}
					}
				}
				return boolVal("false")
			case "ncalled":
				// ncalled(Name): how many calls of Name happened on the path that reached this point
				// (same scope as called(): loops forget the calls of their bodies)
				if env.callerSide {
					return env.havoc(st, "ncalled", tInt)
				}
				want := ""
				if id, ok := unparen(x.Args[0]).(*ast.Ident); ok {
					want = id.Name
				} else if bl, ok := unparen(x.Args[0]).(*ast.BasicLit); ok && bl.Kind == token.STRING {
					want, _ = strconv.Unquote(bl.Value)
				}
				base := env.callBase
				if base > len(st.calls) {
					base = len(st.calls)
				}
				n := 0
				for _, p := range st.calls[base:] {
					if want != "" && p == want {
						n++
					}
				}
				return intVal(fmt.Sprint(n))
			case "blocking":
				// blocking(f): the function value f waits on a channel when called. For a
				// function literal this is decided syntactically; otherwise it is an
				// uninterpreted predicate of the function value.
				fv := env.eval(x.Args[0], st)
				c := env.c
				pred := "fn_blocking_" + mangle(env.sortOf(fv.Ty))
				if len(pred) > 100 {
					pred = pred[:100]
				}
				c.decls.declFun(pred, []string{env.sortOf(fv.Ty)}, "Bool")
				if fv.Fn != nil && fv.Fn.Lit != nil {
					// a receive that is one alternative of a select (several cases, or a default) is
					// not a wait: the function can return without it
					found := false
					skip := map[ast.Node]bool{}
					ast.Inspect(fv.Fn.Lit.Body, func(n ast.Node) bool {
						if sel, ok := n.(*ast.SelectStmt); ok && len(sel.Body.List) > 1 {
							for _, cl := range sel.Body.List {
								if cc, ok := cl.(*ast.CommClause); ok && cc.Comm != nil {
									skip[cc.Comm] = true
								}
							}
						}
						if skip[n] {
							return false
						}
						if u, ok := n.(*ast.UnaryExpr); ok && u.Op == token.ARROW {
							found = true
						}
						return true
					})
					if found {
						st.assumeOnce(app(pred, fv.T))
					} else {
						st.assumeOnce(not(app(pred, fv.T)))
					}
				}
				return boolVal(app(pred, fv.T))
			case "same":
				a := env.eval(x.Args[0], st)
				b := env.eval(x.Args[1], st)
				if ab, ok := a.Ty.(*types.Basic); ok && ab.Kind() == types.UntypedNil && b.Ty != nil {
					// same(nil, x): the literal nil takes the type of the other side
					a = env.coerce(a, b.Ty, st)
				}
				return boolVal(eq(a.T, env.coerce(b, a.Ty, st).T))
			case "has":
				m := env.eval(x.Args[0], st)
				k := env.eval(x.Args[1], st)
				ms := env.sortOf(m.Ty)
				if mt, ok := types.Unalias(env.subst(m.Ty)).Underlying().(*types.Map); ok {
					k = env.coerce(k, mt.Key(), st)
				}
				return boolVal(app("select", app("mh_"+ms, m.T), k.T))
			case "seqlen":
				sq := env.eval(x.Args[0], st)
				ln := app(env.c.seqLenFn(env.sortOf(sq.Ty)), sq.T)
				st.assumeOnce(app("<=", "0", ln))
				return intVal(ln)
			case "seqat", "seqat2":
				sq := env.eval(x.Args[0], st)
				i := env.eval(x.Args[1], st)
				sig, ok := types.Unalias(env.subst(sq.Ty)).Underlying().(*types.Signature)
				if !ok {
					env.c.unsupported("seqat of non-sequence")
					return Val{}
				}
				w := 0
				if id.Name == "seqat2" {
					w = 1
				}
				return env.c.seqElem(env, st, env.sortOf(sq.Ty), sig, sq, i, w)
			}
		}
	}

	// conversion?
	if tt := env.asType(fun); tt != nil && len(x.Args) == 1 {
		return env.convert(env.eval(x.Args[0], st), tt, st, x.Pos())
	}

	// builtin?
	if id, ok := fun.(*ast.Ident); ok {
		if _, shadow := env.bound[id.Name]; !shadow {
			if b, ok := env.resolveIdent(id).(*types.Builtin); ok {
				return env.evalBuiltin(b.Name(), x, st)
			}
		}
	}

	// resolve callee
	var recv *Val
	var fobj *types.Func
	switch f := fun.(type) {
	case *ast.Ident:
		if _, shadow := env.bound[f.Name]; !shadow {
			if o, ok := env.resolveIdent(f).(*types.Func); ok {
				fobj = o
			}
		}
	case *ast.SelectorExpr:
		isPkg := false
		if id, ok := f.X.(*ast.Ident); ok {
			if _, shadow := env.bound[id.Name]; !shadow {
				if pn, ok := env.resolveIdent(id).(*types.PkgName); ok {
					isPkg = true
					if o, ok := pn.Imported().Scope().Lookup(f.Sel.Name).(*types.Func); ok {
						fobj = o
					}
				}
			}
		}
		if !isPkg {
			rv := env.eval(f.X, st)
			if rv.Ty != nil && !rv.Bound {
				obj, _, _ := types.LookupFieldOrMethod(env.subst(rv.Ty), true, env.pkg.types, f.Sel.Name)
				if m, ok := obj.(*types.Func); ok {
					fobj = m
					recv = &rv
				} else if fv, ok := obj.(*types.Var); ok {
					// call of a function-typed field
					fval := env.selectField(rv, fv.Name(), st, f.Pos())
					fargs := env.evalArgs(x.Args, st)
					env.callHooksNamed(fv.Name(), &rv, fargs, st, x)
					return env.applyFuncValue(fval, fargs, st, x)
				}
			}
		}
	}
	if fobj != nil {
		args := env.evalArgs(x.Args, st)
		return env.callFunc(fobj, recv, args, st, x)
	}
	// function value (variable, closure, parameter)
	fv := env.eval(fun, st)
	args := env.evalArgs(x.Args, st)
	if id, ok := fun.(*ast.Ident); ok {
		// call of a function-typed variable or parameter (yield, a callback): order/atcall clauses name it
		env.callHooksNamed(id.Name, nil, args, st, x)
	}
	return env.applyFuncValue(fv, args, st, x)
}

// asType returns the type denoted by e when e is a type expression.
func (env *Env) asType(e ast.Expr) types.Type {
	if !env.contract {
		if tv, ok := env.pkg.info.Types[e]; ok {
			if tv.IsType() {
				return env.subst(tv.Type)
			}
			return nil
		}
	}
	switch x := e.(type) {
	case *ast.Ident:
		if _, shadow := env.bound[x.Name]; shadow {
			return nil
		}
		if tn, ok := env.lookupName(x.Name).(*types.TypeName); ok {
			return env.subst(tn.Type())
		}
	case *ast.ArrayType, *ast.MapType, *ast.StarExpr, *ast.FuncType:
		return env.typeOfExpr(e)
	case *ast.SelectorExpr:
		if id, ok := x.X.(*ast.Ident); ok {
			if pn, ok := env.lookupName(id.Name).(*types.PkgName); ok {
				if tn, ok := pn.Imported().Scope().Lookup(x.Sel.Name).(*types.TypeName); ok {
					return tn.Type()
				}
			}
		}
	case *ast.ParenExpr:
		return env.asType(x.X)
	}
	return nil
}

func (env *Env) convert(v Val, to types.Type, st *State, pos token.Pos) Val {
	c := env.c
	to = env.subst(to)
	if v.Ty == nil {
		return Val{T: v.T, Ty: to}
	}
	from := env.subst(v.Ty)
	sf, stt := env.sortOf(from), env.sortOf(to)
	if b, ok := from.(*types.Basic); ok && b.Info()&types.IsUntyped != 0 {
		return env.coerce(v, to, st)
	}
	if isInteger(from) && isInteger(to) {
		if c.bv {
			return env.convertBV(v, to)
		}
		lo, hi, _ := intRange(to)
		flo, fhi, _ := intRange(from)
		if flo.Cmp(lo) >= 0 && fhi.Cmp(hi) <= 0 {
			return Val{T: v.T, Ty: to}
		}
		if env.contract {
			return Val{T: v.T, Ty: to}
		}
		bits := intBits(to)
		m := pow2(bits).String()
		var r Val
		if isUnsigned(to) {
			r = Val{T: fmt.Sprintf("(mod %s %s)", v.T, m), Ty: to}
		} else {
			half := pow2(bits - 1).String()
			r = Val{T: fmt.Sprintf("(- (mod (+ %s %s) %s) %s)", v.T, half, m, half), Ty: to}
		}
		if c.lossless {
			env.safety(st, "convloss", and(app("<=", smtInt(lo), v.T), app("<=", v.T, smtInt(hi))), pos)
		}
		return r
	}
	if sf == stt {
		return Val{T: v.T, Ty: to, Fn: v.Fn}
	}
	if sf == "Str" && strings.HasPrefix(stt, "Sl_") {
		c.strAxioms()
		fn := "str_bytes"
		c.bytesAxioms(stt)
		c.decls.declFun(fn, []string{"Str"}, stt)
		c.decls.axiom(fn, fmt.Sprintf("(forall ((s Str)) (! (and (= (len_%s (%s s)) (str_len s)) (= (bytes_str (%s s)) s)) :pattern ((%s s))))", stt, fn, fn, fn))
		return Val{T: app(fn, v.T), Ty: to}
	}
	if strings.HasPrefix(sf, "Sl_") && stt == "Str" {
		c.bytesAxioms(sf)
		return Val{T: app("bytes_str", v.T), Ty: to}
	}
	if sf == "Int" && stt == "Real" {
		return Val{T: app("to_real", v.T), Ty: to}
	}
	if sf == "Real" && stt == "Int" {
		// truncation toward zero
		return Val{T: fmt.Sprintf("(ite (>= %s 0.0) (to_int %s) (- (to_int (- %s))))", v.T, v.T, v.T), Ty: to}
	}
	return env.coerce(v, to, st)
}

func (env *Env) evalQuant(kind string, x *ast.CallExpr, st *State) Val {
	c := env.c
	// forall(lo, hi, func(j int) bool { return P })   bounded
	// forall(func(k T) bool { return P })             unbounded over T
	fl, ok := x.Args[len(x.Args)-1].(*ast.FuncLit)
	if !ok || len(fl.Body.List) != 1 {
		c.unsupported("%s: quantifier needs a func literal with one return", c.e.pos(x.Pos()))
		return boolVal(c.fresh("q", "Bool"))
	}
	ret, ok := fl.Body.List[0].(*ast.ReturnStmt)
	if !ok {
		c.unsupported("%s: quantifier body must be a return", c.e.pos(x.Pos()))
		return boolVal(c.fresh("q", "Bool"))
	}
	sub := *env
	sub.bound = map[string]Val{}
	for k, v := range env.bound {
		sub.bound[k] = v
	}
	var binders []string
	var bnames []string
	var guards []string
	var lo, hi string
	var hintExprs []ast.Expr
	if len(x.Args) >= 3 {
		lo = env.eval(x.Args[0], st).T
		hi = env.eval(x.Args[1], st).T
		// exists(lo, hi, hint..., func(g int) bool {...}): candidate witnesses (see below)
		hintExprs = x.Args[2 : len(x.Args)-1]
	}
	for _, f := range fl.Type.Params.List {
		t := env.typeOfExpr(f.Type)
		if t == nil {
			c.unsupported("%s: cannot resolve quantifier type", c.e.pos(x.Pos()))
			t = tInt
		}
		for _, n := range f.Names {
			bn := c.freshBound(n.Name)
			binders = append(binders, fmt.Sprintf("(%s %s)", bn, env.sortOf(t)))
			sub.qvars = append(append([]string(nil), sub.qvars...), fmt.Sprintf("(%s %s)", bn, env.sortOf(t)))
			sub.qnames = append(append([]string(nil), sub.qnames...), bn)
			bv := Val{T: bn, Ty: t}
			sub.bound[n.Name] = bv
			if !env.contract {
				if o := env.pkg.info.Defs[n]; o != nil {
					st.vars[o] = bv
				}
			}
			bnames = append(bnames, bn)
			if lo != "" {
				guards = append(guards, app("<=", lo, bn), app("<", bn, hi))
			} else if l, h, ok := intRange(t); ok && !c.bv {
				guards = append(guards, app("<=", smtInt(l), bn), app("<=", bn, smtInt(h)))
			}
		}
	}
	// body: evaluated on a scratch state so that read-time assumptions about bound
	// variables do not leak into the path condition
	scratch := st.clone()
	n := len(scratch.pc)
	sub.noSafety = true
	var trigs []string
	sub.trigs = &trigs
	body := sub.evalBool(ret.Results[0], scratch)
	extra := scratch.pc[n:]
	for k, v := range scratch.skw {
		if st.skw == nil {
			st.skw = map[string]string{}
		}
		st.skw[k] = v
	}
	// heap maps first read inside the body belong to this state (reads create no new values)
	for k, v := range scratch.heap {
		if _, ok := st.heap[k]; !ok {
			st.heap[k] = v
		}
	}
	// read-time type facts met inside the body are always true: assert them as
	// axioms (quantified when they mention a bound variable) instead of guarding the body
	for _, ex := range extra {
		mentions := false
		for _, bn := range bnames {
			if strings.Contains(ex, bn) {
				mentions = true
			}
		}
		tagged := strings.HasPrefix(ex, "(! ")
		switch {
		case mentions && tagged:
			if strings.Contains(ex, "(select ((as const") {
				continue
			}
			// the trigger must mention every variable bound here
			if i := strings.LastIndex(ex, " :pattern "); i > 0 {
				all := true
				for _, bn := range bnames {
					if !strings.Contains(ex[i:], bn) {
						all = false
					}
				}
				if !all {
					ex = ex[3:i]
				}
			}
			st.assumeOnce(fmt.Sprintf("(forall (%s) %s)", strings.Join(binders, " "), ex))
		case mentions:
			st.assumeOnce(fmt.Sprintf("(forall (%s) %s)", strings.Join(binders, " "), ex))
		case tagged && len(env.qvars) == 0:
			// no enclosing quantifier: plain fact
			if i := strings.LastIndex(ex, " :pattern "); i > 0 {
				st.assumeOnce(ex[3:i])
			}
		default:
			st.assumeOnce(ex)
		}
	}
	g := and(guards...)
	var q string
	// trig(t, ...) inside the body: explicit instantiation patterns (each call one multi-pattern);
	// a pattern only restricts when the solver instantiates, never what the formula says
	pat := func(f string) string {
		if len(trigs) == 0 {
			return f
		}
		out := "(! " + f
		for _, t := range trigs {
			out += " :pattern (" + t + ")"
		}
		return out + ")"
	}
	if kind == "forall" {
		q = fmt.Sprintf("(forall (%s) %s)", strings.Join(binders, " "), pat(implies(g, body)))
		if len(hintExprs) > 0 && len(bnames) == 1 {
			// forall(lo, hi, hint..., func(j) P): the instances at the hint terms are conjoined
			// (they are implied by the quantifier, so the formula is equivalent): hypotheses
			// then offer these instances without any trigger
			parts := []string{q}
			for _, h := range hintExprs {
				hv := env.eval(h, st)
				parts = append(parts, implies(substToken(g, bnames[0], hv.T), substToken(body, bnames[0], hv.T)))
			}
			q = and(parts...)
		}
	} else {
		q = fmt.Sprintf("(exists (%s) %s)", strings.Join(binders, " "), and(g, body))
		if len(hintExprs) > 0 && len(bnames) == 1 {
			q = env.existsWithWitnesses(st, x, q, bnames[0], g, body, hintExprs)
		}
	}
	return boolVal(q)
}

// existsWithWitnesses: exists(lo, hi, hints..., func(g) P). The quantifier gets a Skolem
// function sk of the enclosing bound variables with the (always sound, conservative) axiom
//
//	(exists g. R(g) and P(g))  ==>  R(sk) and P(sk)
//
// and the formula itself is extended by explicit candidates - the hint terms and the Skolem
// term introduced when the same clause was last evaluated in this path's history:
//
//	(exists g. R and P)  or  R(c1) and P(c1)  or ...
//
// which is equivalent to the plain quantifier (every disjunct implies it). Proving an
// invariant "exists" after a loop step then needs no quantifier instantiation: the old
// witness or the hinted new one is tried directly.
func (env *Env) existsWithWitnesses(st *State, x *ast.CallExpr, q, bn, guard, body string, hints []ast.Expr) string {
	c := env.c
	c.nfresh++
	sk := fmt.Sprintf("|skw!%d|", c.nfresh)
	var sorts []string
	for _, qv := range env.qvars {
		sorts = append(sorts, strings.TrimSuffix(strings.SplitN(qv, " ", 2)[1], ")"))
	}
	c.decls.declFun(sk, sorts, "Int")
	skT := app(sk, env.qnames...)
	inst := func(t string) string { return and(substToken(guard, bn, t), substToken(body, bn, t)) }
	cands := []string{q}
	key := fmt.Sprint(x.Pos())
	if prev, ok := st.skw[key]; ok {
		cands = append(cands, inst(app(prev, env.qnames...)))
	}
	if st.skw == nil {
		st.skw = map[string]string{}
	}
	st.skw[key] = sk
	for _, h := range hints {
		hv := env.eval(h, st)
		cands = append(cands, inst(hv.T))
	}
	full := or(cands...)
	// Skolem axiom on the extended formula (each candidate implies the quantifier, so this is
	// the same axiom): as a hypothesis the formula yields its Skolem witness by modus ponens
	ax := implies(full, inst(skT))
	if len(env.qvars) > 0 {
		st.assumeOnce("(! " + ax + " :pattern (" + skT + "))")
	} else {
		st.assumeOnce(ax)
	}
	return full
}

// substToken replaces the bound-variable token name by term t in an SMT string.
func substToken(s, name, t string) string {
	var b strings.Builder
	i := 0
	for i < len(s) {
		j := strings.Index(s[i:], name)
		if j < 0 {
			b.WriteString(s[i:])
			break
		}
		j += i
		end := j + len(name)
		okL := j == 0 || s[j-1] == ' ' || s[j-1] == '('
		okR := end == len(s) || s[end] == ' ' || s[end] == ')'
		b.WriteString(s[i:j])
		if okL && okR {
			b.WriteString(t)
		} else {
			b.WriteString(name)
		}
		i = end
	}
	return b.String()
}

func (env *Env) evalBuiltin(name string, x *ast.CallExpr, st *State) Val {
	c := env.c
	switch name {
	case "len", "cap":
		v := env.eval(x.Args[0], st)
		vt := types.Unalias(env.subst(v.Ty))
		if p, ok := vt.Underlying().(*types.Pointer); ok {
			vt = p.Elem()
		}
		s := env.sortOf(vt)
		var r Val
		switch {
		case s == "Str":
			c.strAxioms()
			r = intVal(app("str_len", v.T))
		case strings.HasPrefix(s, "Sl_"):
			env.rangeAssume(st, Val{T: v.T, Ty: vt})
			r = intVal(app("len_"+s, v.T))
		case strings.HasPrefix(s, "Mp_"):
			env.rangeAssume(st, Val{T: v.T, Ty: vt})
			r = intVal(app("mc_"+s, v.T))
		default:
			c.unsupported("%s: len of %v", c.e.pos(x.Pos()), vt)
			r = env.havoc(st, "len", tInt)
		}
		if name == "cap" {
			capv := env.havoc(st, "cap", tInt)
			st.assume(app(">=", capv.T, r.T))
			return capv
		}
		if c.bv {
			return Val{T: app("(_ int2bv 64)", r.T), Ty: tInt}
		}
		return r
	case "min", "max":
		a := env.eval(x.Args[0], st)
		for _, e := range x.Args[1:] {
			b := env.eval(e, st)
			ty := arithType(a, b)
			op := "<="
			if name == "max" {
				op = ">="
			}
			a = Val{T: ite(app(op, a.T, b.T), a.T, b.T), Ty: ty}
		}
		return a
	case "make":
		t := env.typeOfExpr(x.Args[0])
		switch u := types.Unalias(t).Underlying().(type) {
		case *types.Slice:
			s := env.sortOf(t)
			n := "0"
			if len(x.Args) >= 2 {
				nv := env.eval(x.Args[1], st)
				n = nv.T
				env.safety(st, "makelen", app("<=", "0", n), x.Pos())
			}
			return Val{T: app("mk_"+s, env.zeroArr(s, u.Elem()), n), Ty: t}
		case *types.Map:
			return env.zero(t)
		case *types.Chan:
			// make(chan T[, n]) is logged as a call "makechan" with the capacity as its argument
			// (0 = unbuffered), so that a contract can demand a synchronous hand-over
			capv := intVal("0")
			if len(x.Args) >= 2 {
				capv = env.eval(x.Args[1], st)
			}
			if !env.contract {
				env.callHooksNamed("makechan", nil, []Val{capv}, st, x)
			}
			return Val{T: c.fresh("chan", "Int"), Ty: t}
		}
	case "new":
		t := env.typeOfExpr(x.Args[0])
		if _, sty, _ := structOf(t); sty != nil {
			return env.newObjectOf(&ast.CompositeLit{}, st, t)
		}
	case "append":
		s := env.eval(x.Args[0], st)
		if b, ok := s.Ty.(*types.Basic); ok && b.Kind() == types.UntypedNil {
			if !env.contract {
				s = env.zero(env.pkg.info.TypeOf(x))
			}
		}
		ss := env.sortOf(s.Ty)
		el := elemOf(s.Ty)
		if x.Ellipsis.IsValid() {
			t := env.eval(x.Args[1], st)
			ts := env.sortOf(t.Ty)
			if ts == "Str" {
				t = env.convert(t, types.NewSlice(tByte), st, x.Pos())
				ts = env.sortOf(t.Ty)
			}
			env.rangeAssume(st, s)
			env.rangeAssume(st, t)
			es := env.sortOf(el)
			arr := c.fresh("app", fmt.Sprintf("(Array Int %s)", es))
			j := c.freshBound("j")
			ls, lt := app("len_"+ss, s.T), app("len_"+ts, t.T)
			st.assume(fmt.Sprintf("(forall ((%s Int)) (! (=> (and (<= 0 %s) (< %s %s)) (= (select %s %s) (select (arr_%s %s) %s))) :pattern ((select %s %s))))", j, j, j, ls, arr, j, ss, s.T, j, arr, j))
			st.assume(fmt.Sprintf("(forall ((%s Int)) (! (=> (and (<= 0 %s) (< %s %s)) (= (select %s (+ %s %s)) (select (arr_%s %s) %s))) :pattern ((select (arr_%s %s) %s))))", j, j, j, lt, arr, ls, j, ts, t.T, j, ts, t.T, j))
			return Val{T: app("mk_"+ss, arr, app("+", ls, lt)), Ty: s.Ty}
		}
		env.rangeAssume(st, s)
		arr, ln := app("arr_"+ss, s.T), app("len_"+ss, s.T)
		for i, a := range x.Args[1:] {
			v := env.coerce(env.evalHint(a, st, el), el, st)
			idx := ln
			if i > 0 {
				idx = app("+", ln, fmt.Sprint(i))
			}
			arr = app("store", arr, idx, v.T)
		}
		nl := ln
		if n := len(x.Args) - 1; n > 0 {
			nl = app("+", ln, fmt.Sprint(n))
		}
		return Val{T: app("mk_"+ss, arr, nl), Ty: s.Ty}
	case "panic":
		env.doPanic(st, x.Pos())
		return Val{}
	case "delete", "copy", "clear", "close", "print", "println":
		// statement-level builtins are handled in exec
		return env.execBuiltinStmt(name, x, st)
	}
	c.unsupported("%s: builtin %s", c.e.pos(x.Pos()), name)
	return Val{T: c.fresh("unk", "Int"), Ty: tInt}
}

func (env *Env) doPanic(st *State, pos token.Pos) {
	c := env.c
	if c.noSafety {
		st.assume("false")
		return
	}
	goal := "false"
	clause := "explicit panic reachable"
	if con := c.fi.Contract; con != nil && con.PanicsWhen != nil && c.inlineTag == "" {
		ce := c.contractEnv(c.fi, c.entry, c.entryArgs, nil, nil)
		es := c.entry.clone()
		es.pc = st.pc
		goal = ce.evalBool(con.PanicsWhen.Expr, es)
		clause = "panics when " + con.PanicsWhen.Text
	}
	name := fmt.Sprintf("safety/%spanic#%d", env.tag(), c.ordinal("safety/"+env.tag()+"panic"))
	c.addObl(st, name, "safety", goal, c.e.pos(pos), clause, nil)
	st.assume("false") // path ends
}

// applyFuncValue calls a function value: statically known closures are inlined,
// anything else is an uninterpreted (pure, deterministic) application.
func (env *Env) applyFuncValue(fv Val, args []Val, st *State, call *ast.CallExpr) Val {
	c := env.c
	if fv.Fn != nil && fv.Fn.Yield {
		return env.doYield(args, st, call)
	}
	if fv.Fn != nil {
		if fv.Fn.Lit != nil {
			return env.inlineClosure(fv.Fn, args, st, call)
		}
		if fv.Fn.Func != nil && fv.Fn.Func.Obj != nil {
			return env.callFunc(fv.Fn.Func.Obj, fv.Fn.Recv, args, st, call)
		}
		if fv.Fn.Obj != nil {
			// a library function used as a value (cmp.Compare, ...): its native specification
			full := fv.Fn.Obj.FullName()
			if o := fv.Fn.Obj.Origin(); o != nil {
				full = o.FullName()
			}
			if spec, ok := stdSpecs[full]; ok {
				return spec(env, nil, args, st, call)
			}
		}
	}
	sig, ok := types.Unalias(env.subst(fv.Ty)).Underlying().(*types.Signature)
	if !ok {
		c.unsupported("%s: call of non-function value", c.e.pos(call.Pos()))
		return Val{T: c.fresh("unk", "Int"), Ty: tInt}
	}
	c.trust("function-typed parameters and fields are pure, deterministic and do not modify verified state")
	fsort := env.sortOf(fv.Ty)
	argSorts := []string{fsort}
	argTerms := []string{fv.T}
	for i, a := range args {
		var pt types.Type
		if i < sig.Params().Len() {
			pt = sig.Params().At(i).Type()
		} else if sig.Variadic() {
			pt = elemOf(sig.Params().At(sig.Params().Len() - 1).Type())
		}
		if pt != nil {
			a = env.coerce(a, pt, st)
			argSorts = append(argSorts, env.sortOf(pt))
		} else {
			argSorts = append(argSorts, env.sortOf(a.Ty))
		}
		argTerms = append(argTerms, a.T)
	}
	res := sig.Results()
	if res.Len() == 0 {
		return Val{}
	}
	var outs []Val
	for i := 0; i < res.Len(); i++ {
		rt := env.subst(res.At(i).Type())
		fn := fmt.Sprintf("apply%d_%s", i, mangle(fsort))
		if len(fn) > 120 {
			fn = fn[:120]
		}
		fn = fn + fmt.Sprintf("_%d", len(argSorts))
		c.decls.declFun(fn, argSorts, env.sortOf(rt))
		r := Val{T: app(fn, argTerms...), Ty: rt}
		env.rangeAssume(st, r)
		outs = append(outs, r)
	}
	if len(outs) == 1 {
		return outs[0]
	}
	return Val{Tuple: outs}
}

// callFunc dispatches a call of a named function or method.
func (env *Env) callFunc(fobj *types.Func, recv *Val, args []Val, st *State, call *ast.CallExpr) Val {
	c := env.c
	// method expression T.m / (*T).m called as a function: the first argument is the receiver
	if sg, ok := fobj.Type().(*types.Signature); ok && sg.Recv() != nil && recv == nil && len(args) == sg.Params().Len()+1 {
		r := args[0]
		recv = &r
		args = args[1:]
	}
	full := fobj.FullName()
	if o := fobj.Origin(); o != nil {
		full = o.FullName()
	}
	env.callHooks(fobj, recv, args, st, call)
	// library / assumed contracts implemented natively
	if spec, ok := stdSpecs[full]; ok {
		return spec(env, recv, args, st, call)
	}
	// verif ghost helpers by name
	if fobj.Pkg() != nil && strings.HasSuffix(fobj.Pkg().Path(), "/verifghost") {
		// Forall/Exists etc. are recognised syntactically in evalCall via lower-case names;
		// exported variants map to the same code
		return env.evalQuantGo(fobj.Name(), call, st)
	}
	var recvTy types.Type
	if recv != nil {
		recvTy = recv.Ty
	}
	fi := env.resolveCallee(fobj, recvTy)
	if fi != nil && fi.Ghost && fi.Decl != nil && fi.Contract == nil {
		// ghost definitions are unfolded; a ghost function WITH a contract is a lemma proved as
		// code (verified like any function) and used through its contract
		return env.inlineFunc(fi, recv, args, st, call)
	}
	if fi != nil && fi.Contract != nil && !fi.Contract.Inline {
		return env.applyContract(fi, recv, args, st, call)
	}
	if fi != nil && fi.Decl != nil && fi.Decl.Body != nil && c.inlineDepth < 4 {
		if c.e.inlineable(fi) || (fi.Contract != nil && fi.Contract.Inline) {
			return env.inlineFunc(fi, recv, args, st, call)
		}
	}
	// unspecified callee: arbitrary results, no effect on verified state (listed) - except
	// variables whose address is passed (&x): they hold an arbitrary value afterwards
	c.trust("unspecified callee " + full + ": results arbitrary, assumed not to modify verified state (variables passed by address become arbitrary)")
	c.unspecified[full] = true
	if call != nil && !env.contract {
		for _, a := range call.Args {
			if ue, ok := unparen(a).(*ast.UnaryExpr); ok && ue.Op == token.AND {
				if _, isLit := unparen(ue.X).(*ast.CompositeLit); isLit {
					continue
				}
				if t := env.pkg.info.TypeOf(ue.X); t != nil {
					c.assign(env, ue.X, env.havoc(st, "byaddr", t), st)
				}
			}
		}
	}
	sig := fobj.Type().(*types.Signature)
	return env.havocResults(sig, st, fobj.Name())
}

// resolveCallee finds the function under contract behind a call: a repository function, an
// interface method with a contract attached to Iface.Method, or a library function with a
// contract declared as "ext:pkg.Type.Method" / "ext:pkg.Func". recvTy is the static type of the
// receiver expression (nil for plain functions).
func (env *Env) resolveCallee(fobj *types.Func, recvTy types.Type) *FuncInfo {
	c := env.c
	fi := c.e.lookupFunc(fobj)
	// interface method: look for a contract attached to Iface.Method
	if fi == nil && recvTy != nil {
		if n, ok := types.Unalias(env.subst(recvTy)).(*types.Named); ok {
			if _, isIf := n.Underlying().(*types.Interface); isIf && n.Obj().Pkg() != nil {
				key := n.Obj().Pkg().Name() + "." + n.Obj().Name() + "." + fobj.Name()
				if f2, ok := c.e.funcs[key]; ok {
					fi = f2
					if fi.Obj == nil {
						fi.Obj = fobj
					}
				}
			}
		}
	}
	// library function with a contract declared as "ext:pkg.Type.Method" / "ext:pkg.Func"
	if fi == nil && fobj.Pkg() != nil {
		key := fobj.Pkg().Name() + "." + fobj.Name()
		if sg, ok := fobj.Type().(*types.Signature); ok && sg.Recv() != nil {
			rt := types.Unalias(sg.Recv().Type())
			if p, ok := rt.(*types.Pointer); ok {
				rt = types.Unalias(p.Elem())
			}
			if n, ok := rt.(*types.Named); ok {
				key = fobj.Pkg().Name() + "." + n.Obj().Name() + "." + fobj.Name()
			}
		}
		if f2, ok := c.e.funcs[key]; ok && f2.Contract != nil {
			fi = f2
			if fi.Obj == nil {
				fi.Obj = fobj
			}
			// an interface method reached through embedding (storage.File embeds io.Writer): the
			// ghost fields of the declaring interface are not defined on the embedding one, so
			// its contract does not apply - the call stays an unspecified callee (listed)
			if sg, ok := fobj.Type().(*types.Signature); ok && sg.Recv() != nil && recvTy != nil {
				if _, isIf := types.Unalias(sg.Recv().Type()).Underlying().(*types.Interface); isIf {
					if ds, rs := env.sortOf(sg.Recv().Type()), env.sortOf(recvTy); ds != rs && strings.HasPrefix(rs, "If_") {
						if ts := c.e.typeSpecForSort(ds); ts != nil && len(ts.GhostFields) > 0 {
							fi = nil
						}
					}
				}
			}
		}
	}
	return fi
}

func (env *Env) havocResults(sig *types.Signature, st *State, name string) Val {
	res := sig.Results()
	if res.Len() == 0 {
		return Val{}
	}
	var outs []Val
	for i := 0; i < res.Len(); i++ {
		outs = append(outs, env.havoc(st, "ret_"+name, res.At(i).Type()))
	}
	if len(outs) == 1 {
		return outs[0]
	}
	return Val{Tuple: outs}
}

// inlineable: small, non-recursive functions without loops are inlined when they
// have no contract.
func (e *Engine) inlineable(fi *FuncInfo) bool {
	if fi.Decl == nil || fi.Decl.Body == nil {
		return false
	}
	n := 0
	ok := true
	ast.Inspect(fi.Decl.Body, func(nd ast.Node) bool {
		switch nd.(type) {
		case *ast.ForStmt, *ast.RangeStmt, *ast.GoStmt, *ast.SelectStmt, *ast.DeferStmt:
			ok = false
		case ast.Stmt:
			n++
		}
		return true
	})
	return ok && n <= 12
}

func (c *Ctx) pkgRefOf(fi *FuncInfo) *pkgRef {
	p := fi.Pkg
	return &pkgRef{info: p.TypesInfo, types: p.Types, files: p.Syntax}
}

// paramObjs lists receiver + parameter objects of a declared function.
func paramObjs(fi *FuncInfo) (recv *types.Var, params []*types.Var, results []*types.Var) {
	sig := fi.Obj.Type().(*types.Signature)
	if fi.Decl != nil {
		info := fi.Pkg.TypesInfo
		if fi.Decl.Recv != nil && len(fi.Decl.Recv.List) > 0 && len(fi.Decl.Recv.List[0].Names) > 0 {
			recv, _ = info.Defs[fi.Decl.Recv.List[0].Names[0]].(*types.Var)
		}
		for _, f := range fi.Decl.Type.Params.List {
			for _, n := range f.Names {
				v, _ := info.Defs[n].(*types.Var)
				params = append(params, v)
			}
			if len(f.Names) == 0 {
				params = append(params, nil)
			}
		}
		if fi.Decl.Type.Results != nil {
			for _, f := range fi.Decl.Type.Results.List {
				for _, n := range f.Names {
					v, _ := info.Defs[n].(*types.Var)
					results = append(results, v)
				}
			}
		}
		return
	}
	recv = sig.Recv()
	for i := 0; i < sig.Params().Len(); i++ {
		params = append(params, sig.Params().At(i))
	}
	return
}

// typeSubstFor computes the type-parameter substitution of a call from argument types.
func (env *Env) typeSubstFor(fi *FuncInfo, recv *Val, args []Val) map[*types.TypeParam]types.Type {
	sig := fi.Obj.Type().(*types.Signature)
	m := map[*types.TypeParam]types.Type{}
	var unify func(p, a types.Type)
	unify = func(p, a types.Type) {
		if p == nil || a == nil {
			return
		}
		p = types.Unalias(p)
		a = types.Unalias(env.subst(a))
		switch pt := p.(type) {
		case *types.TypeParam:
			if b, ok := a.(*types.Basic); ok && b.Info()&types.IsUntyped != 0 {
				return
			}
			if _, ok := m[pt]; !ok {
				m[pt] = a
			}
		case *types.Slice:
			if at, ok := a.Underlying().(*types.Slice); ok {
				unify(pt.Elem(), at.Elem())
			}
		case *types.Pointer:
			if at, ok := a.Underlying().(*types.Pointer); ok {
				unify(pt.Elem(), at.Elem())
			}
		case *types.Map:
			if at, ok := a.Underlying().(*types.Map); ok {
				unify(pt.Key(), at.Key())
				unify(pt.Elem(), at.Elem())
			}
		case *types.Named:
			if at, ok := a.(*types.Named); ok && pt.TypeArgs() != nil && at.TypeArgs() != nil {
				for i := 0; i < pt.TypeArgs().Len() && i < at.TypeArgs().Len(); i++ {
					unify(pt.TypeArgs().At(i), at.TypeArgs().At(i))
				}
			}
		case *types.Signature:
			if at, ok := a.Underlying().(*types.Signature); ok {
				for i := 0; i < pt.Params().Len() && i < at.Params().Len(); i++ {
					unify(pt.Params().At(i).Type(), at.Params().At(i).Type())
				}
				for i := 0; i < pt.Results().Len() && i < at.Results().Len(); i++ {
					unify(pt.Results().At(i).Type(), at.Results().At(i).Type())
				}
			}
		}
	}
	if recv != nil && sig.Recv() != nil {
		unify(sig.Recv().Type(), recv.Ty)
	}
	for i, a := range args {
		if sig.Variadic() && i >= sig.Params().Len()-1 {
			// f(a, b, c) against f(xs ...T): unify the element type unless the call spreads a slice
			vt := sig.Params().At(sig.Params().Len() - 1).Type()
			if a.Ty != nil {
				if _, isSl := types.Unalias(env.subst(a.Ty)).Underlying().(*types.Slice); isSl && len(args) == sig.Params().Len() {
					unify(vt, a.Ty)
				}
			}
			if sl, ok := vt.(*types.Slice); ok {
				unify(sl.Elem(), a.Ty)
			}
			continue
		}
		if i < sig.Params().Len() {
			unify(sig.Params().At(i).Type(), a.Ty)
		}
	}
	// constraint type params like S ~[]E: resolve E from S
	if tps := sig.TypeParams(); tps != nil {
		for i := 0; i < tps.Len(); i++ {
			tp := tps.At(i)
			if a, ok := m[tp]; ok {
				if iface, ok := tp.Constraint().Underlying().(*types.Interface); ok && iface.NumEmbeddeds() == 1 {
					if u, ok := iface.EmbeddedType(0).(*types.Union); ok && u.Len() == 1 {
						unify(u.Term(0).Type(), a.Underlying())
					}
				}
			}
		}
	}
	if len(m) == 0 {
		return nil
	}
	return m
}

// contractEnv builds the environment for evaluating fi's contract expressions:
// parameter names are bound to the given (entry) values.
func (c *Ctx) contractEnv(fi *FuncInfo, old *State, bind map[string]Val, results []Val, tsubst map[*types.TypeParam]types.Type) *Env {
	env := &Env{c: c, fn: fi, pkg: c.pkgRefOf(fi), contract: true, bound: map[string]Val{}, results: results, old: old, tsubst: tsubst, noSafety: true}
	for k, v := range bind {
		env.bound[k] = v
	}
	if fi.Decl != nil {
		env.scopePos = fi.Decl.Body.Rbrace
		if fi.Decl.Body == nil {
			env.scopePos = fi.Decl.End()
		}
	}
	return env
}

// bindArgs maps parameter names (and receiver name) to argument values.
func (env *Env) bindArgs(fi *FuncInfo, recv *Val, args []Val, st *State) map[string]Val {
	bind := map[string]Val{}
	if ts := env.typeSubstFor(fi, recv, args); len(ts) > 0 {
		e2 := *env
		e2.tsubst = map[*types.TypeParam]types.Type{}
		for k, v := range env.tsubst {
			e2.tsubst[k] = v
		}
		for k, v := range ts {
			e2.tsubst[k] = v
		}
		env = &e2
	}
	rv, ps, _ := paramObjs(fi)
	sig := fi.Obj.Type().(*types.Signature)
	if recv != nil {
		name := "self"
		if rv != nil && rv.Name() != "" && rv.Name() != "_" {
			name = rv.Name()
		}
		r := *recv
		// implicit address-of / deref is not modelled: receiver passed as is
		bind[name] = r
		bind["self"] = r
	}
	for i, p := range ps {
		name := fmt.Sprintf("arg%d", i)
		var pt types.Type
		if i < sig.Params().Len() {
			pt = sig.Params().At(i).Type()
		}
		if sig.Variadic() && i == sig.Params().Len()-1 {
			// pack the remaining args into a slice value
			if len(args) == i+1 && args[i].Ty != nil && strings.HasPrefix(env.sortOf(args[i].Ty), "Sl_") && env.sortOf(args[i].Ty) == env.sortOf(pt) {
				// spread call f(xs...)
			} else {
				ss := env.sortOf(pt)
				arr := env.zeroArr(ss, elemOf(pt))
				for k, a := range args[i:] {
					arr = app("store", arr, fmt.Sprint(k), env.coerce(a, elemOf(pt), st).T)
				}
				v := Val{T: app("mk_"+ss, arr, fmt.Sprint(len(args)-i)), Ty: pt}
				if p != nil && p.Name() != "" {
					bind[p.Name()] = v
				}
				bind[name] = v
				break
			}
		}
		if i >= len(args) {
			break
		}
		a := args[i]
		if pt != nil {
			a = env.coerce(a, env.subst(pt), st)
		}
		if p != nil && p.Name() != "" && p.Name() != "_" {
			bind[p.Name()] = a
		}
		bind[name] = a
	}
	return bind
}

// applyContract replaces a call by the callee's contract.
func (env *Env) applyContract(fi *FuncInfo, recv *Val, args []Val, st *State, call *ast.CallExpr) Val {
	c := env.c
	con := fi.Contract
	c.calleesUsed[fi.Key] = true
	if con.isTrusted(c.e.curProp) {
		c.trust("trusted contract of " + fi.Key + " (body not verified)")
	}
	bind := env.bindArgs(fi, recv, args, st)
	ts := env.instanceSubst(env.typeSubstFor(fi, recv, args), fi, call)
	for k, v := range env.tsubst {
		if ts == nil {
			ts = map[*types.TypeParam]types.Type{}
		}
		if _, ok := ts[k]; !ok {
			ts[k] = v
		}
	}
	j := c.callOrd[fi.Key]
	c.callOrd[fi.Key]++
	short := strings.TrimPrefix(fi.Key, c.fi.Pkg.Name+".")
	pre := c.contractEnv(fi, nil, bind, nil, ts)
	pre.qvars, pre.qnames = env.qvars, env.qnames
	var preTerms []string
	// a call written inside a specification (contract clause, ghost function, quantifier body)
	// creates no obligation; its postcondition is available where its precondition holds
	specCtx := env.contract || env.ghostBody || len(env.qvars) > 0
	for k, r := range con.Requires {
		if len(r.Props) > 0 && c.e.curProp != "" && !has(r.Props, c.e.curProp) {
			continue
		}
		g := pre.evalBool(r.Expr, st)
		preTerms = append(preTerms, g)
		if !c.noSafety && !specCtx {
			c.addObl(st, fmt.Sprintf("%scall%d:%s/pre#%d", env.tag(), j, short, k), "pre", g, c.e.pos(call.Pos()), "requires "+r.Text, nil)
		}
	}
	for k, h := range con.Holds {
		tok := env.lockToken(pre, h, st)
		if !st.held[tok] && !c.noSafety && !specCtx {
			c.addObl(st, fmt.Sprintf("%scall%d:%s/holds#%d", env.tag(), j, short, k), "lock", "false", c.e.pos(call.Pos()), "callee requires lock "+h+" to be held", nil)
		}
	}
	// guarded state of a monitor object is unstable outside its lock: forget it first
	if recv != nil {
		env.havocGuarded(*recv, st)
	}
	old := st.clone()
	// havoc the frame
	for _, m := range con.Modifies {
		env.havocFrame(fi, m, pre, st)
	}
	sig := fi.Obj.Type().(*types.Signature)
	var results []Val
	sub := &Env{c: c, tsubst: ts, qvars: env.qvars, qnames: env.qnames}
	for i := 0; i < sig.Results().Len(); i++ {
		if con.Pure {
			// "pure": the results are functions of the argument values only (not of the heap
			// behind them): the same arguments give the same results everywhere
			rt := sub.subst(sig.Results().At(i).Type())
			var sorts, ts2 []string
			for _, a := range args {
				if a.Ty == nil || a.T == "" {
					continue
				}
				sorts = append(sorts, env.sortOf(a.Ty))
				ts2 = append(ts2, a.T)
			}
			if recv != nil && recv.T != "" && recv.Ty != nil {
				sorts = append(sorts, env.sortOf(recv.Ty))
				ts2 = append(ts2, recv.T)
			}
			for _, rd := range con.Reads {
				rv := pre.eval(rd.Expr, old)
				sorts = append(sorts, pre.sortOf(rv.Ty))
				ts2 = append(ts2, rv.T)
			}
			fn := fmt.Sprintf("|pure:%s#%d:%s|", fi.Key, i, strings.Join(sorts, ","))
			c.decls.declFun(fn, sorts, sub.sortOf(rt))
			v := Val{T: app(fn, ts2...), Ty: rt}
			if !specCtx {
				sub.rangeAssume(st, v)
			}
			results = append(results, v)
			c.trust("pure contract of " + fi.Key + ": results are a function of the argument values")
			continue
		}
		results = append(results, sub.havoc(st, "r_"+fi.Obj.Name(), sig.Results().At(i).Type()))
	}
	post := c.contractEnv(fi, old, bind, results, ts)
	post.callerSide = true
	post.qvars, post.qnames = env.qvars, env.qnames
	for _, en := range con.Ensures {
		if len(en.Props) > 0 && c.e.curProp != "" && !has(en.Props, c.e.curProp) {
			continue // clause scoped to other properties: not used in this check
		}
		if con.Pure && specCtx {
			// a pure function written in a specification is opaque: only the function term;
			// its postcondition becomes available where the code calls it
			break
		}
		e := post.evalBool(en.Expr, st)
		if specCtx {
			e = implies(and(preTerms...), e)
		}
		st.assume(e)
	}
	for _, en := range con.Assumes {
		c.trust("assumed postcondition of " + fi.Key + ": " + en.Text)
		st.assume(post.evalBool(en.Expr, st))
	}
	switch len(results) {
	case 0:
		return Val{}
	case 1:
		return results[0]
	}
	return Val{Tuple: results}
}

// havocFrame forgets everything the callee may modify: "x.f", "x.*", "Type.f".
func (env *Env) havocFrame(fi *FuncInfo, m string, ce *Env, st *State) {
	c := env.c
	if strings.HasPrefix(m, "*") {
		// "*p": the cell behind a pointer to a non-struct value
		if ex, err := parseExprCached(strings.TrimPrefix(m, "*")); err == nil {
			ref := ce.eval(ex, st)
			if pt, ok := types.Unalias(ce.subst(ref.Ty)).Underlying().(*types.Pointer); ok {
				es := ce.sortOf(pt.Elem())
				key := "ptr." + es
				h := ce.heapTerm(st, key, es)
				st.heap[key] = app("store", h, ref.T, c.fresh("mod_ptr", es))
			}
		}
		return
	}
	base, field, ok := cutLast(m, ".")
	if !ok {
		c.unsupported("bad modifies clause %q", m)
		return
	}
	// Type.f / pkg.Type.f : every object of that type
	if tt := ce.frameType(base); tt != nil {
		ssort := ce.sortOf(tt)
		if strings.HasPrefix(ssort, "If_") {
			// ghost field of every value of an interface type
			if ts := c.e.typeSpecForSort(ssort); ts != nil {
				if texpr, ok := ts.GhostFields[field]; ok {
					gt := ce.ghostTypeOf(ts, field, texpr)
					key := ssort + ".$" + field
					ce.heapTermK(st, key, ssort, ce.sortOf(gt))
					st.heap[key] = c.fresh("H'"+key, fmt.Sprintf("(Array %s %s)", ssort, ce.sortOf(gt)))
					return
				}
			}
			c.unsupported("modifies %q: no such ghost field on the interface", m)
			return
		}
		if insts := c.genericInstances(tt, ssort); insts != nil {
			// a generic type named without arguments: every instantiation in use
			for _, is := range insts {
				for _, fn := range c.structFields(is, field) {
					key := is + "." + fn
					if h, ok := st.heap[key]; ok && c.heapSorts[key] != "" {
						_ = h
						st.heap[key] = c.fresh("H'"+key, fmt.Sprintf("(Array Int %s)", c.heapSorts[key]))
					} else {
						if st.pendingHavoc == nil {
							st.pendingHavoc = map[string]bool{}
						}
						st.pendingHavoc[fn] = true
					}
				}
			}
			return
		}
		for _, fn := range c.structFields(ssort, field) {
			key := ssort + "." + fn
			srt := c.fieldSortByKey(ce, tt, fn)
			if gt := ce.ghostFieldType(types.NewPointer(tt), fn); gt != nil && srt == "Int" && !c.hasRealField(tt, fn) {
				key = ssort + ".$" + fn
				srt = ce.sortOf(gt)
			}
			ce.heapTerm(st, key, srt)
			st.heap[key] = c.fresh("H'"+key, fmt.Sprintf("(Array Int %s)", srt))
		}
		return
	}
	ex, err := parseExprCached(base)
	if err != nil {
		c.unsupported("bad modifies clause %q", m)
		return
	}
	ref := ce.eval(ex, st)
	_, sty, isPtr := structOf(ce.subst(ref.Ty))
	if is := ce.sortOf(ref.Ty); strings.HasPrefix(is, "If_") {
		// ghost field of an interface value
		if ts := c.e.typeSpecForSort(is); ts != nil {
			if texpr, ok := ts.GhostFields[field]; ok {
				gt := ce.ghostTypeOf(ts, field, texpr)
				key := is + ".$" + field
				h := ce.heapTermK(st, key, is, ce.sortOf(gt))
				nv := ce.havoc(st, "mod_"+field, gt)
				st.heap[key] = app("store", h, ref.T, nv.T)
				return
			}
		}
		c.unsupported("modifies %q: no such ghost field on the interface", m)
		return
	}
	if sty == nil || !isPtr {
		c.unsupported("modifies %q: not a pointer to struct", m)
		return
	}
	ssort := ce.structSortOf(ref.Ty)
	for _, fn := range c.structFields(ssort, field) {
		key := ssort + "." + fn
		var ft types.Type
		for i := 0; i < sty.NumFields(); i++ {
			if sty.Field(i).Name() == fn {
				ft = sty.Field(i).Type()
			}
		}
		if ft == nil {
			if gt := ce.ghostFieldType(ref.Ty, fn); gt != nil {
				ft = gt
				key = ssort + ".$" + fn
			}
		}
		if ft == nil {
			c.unsupported("modifies %q: no such field", m)
			continue
		}
		srt := ce.sortOf(ft)
		h := ce.heapTerm(st, key, srt)
		nv := ce.havoc(st, "mod_"+fn, ft)
		st.heap[key] = app("store", h, ref.T, nv.T)
	}
}

func (c *Ctx) structFields(ssort, field string) []string {
	if field != "*" {
		return []string{field}
	}
	st := c.e.types.structs[ssort]
	var out []string
	if st != nil {
		for i := 0; i < st.NumFields(); i++ {
			if !isMutex(st.Field(i).Type()) {
				out = append(out, st.Field(i).Name())
			}
		}
	}
	if ts := c.e.typeSpecForSort(ssort); ts != nil {
		out = append(out, sortedKeys(ts.GhostFields)...)
	}
	return out
}

func (c *Ctx) fieldSortByKey(env *Env, t types.Type, field string) string {
	_, sty, _ := structOf(t)
	if sty != nil {
		for i := 0; i < sty.NumFields(); i++ {
			if sty.Field(i).Name() == field {
				return env.sortOf(sty.Field(i).Type())
			}
		}
	}
	return "Int"
}

func cutLast(s, sep string) (string, string, bool) {
	i := strings.LastIndex(s, sep)
	if i < 0 {
		return s, "", false
	}
	return s[:i], s[i+len(sep):], true
}

// inlineFunc executes the callee's body in place and merges its return paths.
func (env *Env) inlineFunc(fi *FuncInfo, recv *Val, args []Val, st *State, call *ast.CallExpr) Val {
	c := env.c
	rv, ps, rs := paramObjs(fi)
	sig := fi.Obj.Type().(*types.Signature)
	ts := env.instanceSubst(env.typeSubstFor(fi, recv, args), fi, call)
	for k, v := range env.tsubst {
		if ts == nil {
			ts = map[*types.TypeParam]types.Type{}
		}
		if _, ok := ts[k]; !ok {
			ts[k] = v
		}
	}
	sub := &Env{c: c, fn: fi, pkg: c.pkgRefOf(fi), tsubst: ts, bound: map[string]Val{}, old: env.old, noSafety: env.noSafety || fi.Ghost, depth: env.depth + 1, qvars: env.qvars, qnames: env.qnames,
		ghostBody: env.ghostBody || env.contract || fi.Ghost}
	if env.oldMode {
		sub.oldMode = true
	}
	bind := env.bindArgs(fi, recv, args, st)
	saved := map[types.Object]Val{}
	had := map[types.Object]bool{}
	setVar := func(o *types.Var, v Val) {
		if o == nil {
			return
		}
		if old, ok := st.vars[o]; ok {
			saved[o] = old
			had[o] = true
		} else {
			had[o] = false
		}
		st.vars[o] = v
	}
	if rv != nil && recv != nil {
		setVar(rv, *recv)
	}
	for i, p := range ps {
		if p == nil {
			continue
		}
		if v, ok := bind[p.Name()]; ok {
			setVar(p, v)
		} else if v, ok := bind[fmt.Sprintf("arg%d", i)]; ok {
			setVar(p, v)
		}
	}
	_ = sig
	// slice parameters share their backing array with the caller's argument: element writes
	// of the callee (b[i] = v, copy(b, ..), PutUintN(b, ..)) are written back to the argument
	// expression when the callee never re-slices or reassigns the parameter itself
	initSl := map[*types.Var]Val{}
	for i, p := range ps {
		if p == nil || call == nil || i >= len(call.Args) || (sig.Variadic() && i == len(ps)-1) {
			continue
		}
		if _, ok := types.Unalias(sub.subst(p.Type())).Underlying().(*types.Slice); ok {
			initSl[p] = st.vars[p]
		}
	}
	writeBack := func() {
		for i, p := range ps {
			init, ok := initSl[p]
			if !ok {
				continue
			}
			fin, ok := st.vars[p]
			if !ok || fin.T == init.T {
				continue
			}
			if paramReassigned(fi, p) {
				c.unsupported("slice parameter %s of inlined %s is both reassigned and written", p.Name(), fi.Key)
				continue
			}
			switch unparen(call.Args[i]).(type) {
			case *ast.Ident, *ast.SelectorExpr, *ast.SliceExpr, *ast.IndexExpr:
				defer func(arg ast.Expr, v Val) { c.assignSliceTarget(env, arg, v, st) }(call.Args[i], fin)
			}
		}
	}
	var result Val
	// fast path: single return statement
	body := fi.Decl.Body
	if len(body.List) == 1 {
		if ret, ok := body.List[0].(*ast.ReturnStmt); ok && len(ret.Results) >= 1 {
			c.inlineDepth++
			oldTag := c.inlineTag
			if !fi.Ghost {
				c.inlineTag = fmt.Sprintf("%sinl:%s", prefixTag(oldTag), strings.TrimPrefix(fi.Key, c.fi.Pkg.Name+"."))
			}
			if len(ret.Results) == 1 {
				result = sub.eval(ret.Results[0], st)
				if sig.Results().Len() == 1 {
					result = sub.coerce(result, sig.Results().At(0).Type(), st)
				}
			} else {
				var outs []Val
				for i, r := range ret.Results {
					outs = append(outs, sub.coerce(sub.eval(r, st), sig.Results().At(i).Type(), st))
				}
				result = Val{Tuple: outs}
			}
			c.inlineTag = oldTag
			c.inlineDepth--
			writeBack()
			for o := range had {
				if had[o] {
					st.vars[o] = saved[o]
				} else {
					delete(st.vars, o)
				}
			}
			return result
		}
	}
	// general path: execute and merge
	c.inlineDepth++
	oldTag := c.inlineTag
	if !fi.Ghost {
		c.inlineTag = fmt.Sprintf("%sinl:%s", prefixTag(oldTag), strings.TrimPrefix(fi.Key, c.fi.Pkg.Name+"."))
	}
	for _, r := range rs {
		if r != nil {
			setVar(r, sub.zero(r.Type()))
		}
	}
	fr := &frame{fi: fi, env: sub, resultObjs: rs, sig: sig}
	c.frames = append(c.frames, fr)
	base := len(st.pc)
	start := st.clone()
	outs := c.execBlock(sub, body.List, []*State{start})
	for _, o := range outs { // fall off the end
		fr.returns = append(fr.returns, retState{st: o, vals: fr.namedResults(o)})
	}
	c.frames = c.frames[:len(c.frames)-1]
	c.inlineTag = oldTag
	c.inlineDepth--
	result = c.mergeReturns(env, st, base, fr, sig)
	writeBack()
	for o := range had {
		if had[o] {
			st.vars[o] = saved[o]
		} else {
			delete(st.vars, o)
		}
	}
	return result
}

// paramReassigned: does the body assign to the parameter variable itself (b = ..., b, x = ...)?
func paramReassigned(fi *FuncInfo, p *types.Var) bool {
	found := false
	ast.Inspect(fi.Decl.Body, func(n ast.Node) bool {
		if as, ok := n.(*ast.AssignStmt); ok {
			for _, l := range as.Lhs {
				if id, ok := unparen(l).(*ast.Ident); ok && fi.Pkg.TypesInfo.Uses[id] == p {
					found = true
				}
			}
		}
		return true
	})
	return found
}

func prefixTag(t string) string {
	if t == "" {
		return ""
	}
	return t + ">"
}

func (env *Env) inlineClosure(cl *Closure, args []Val, st *State, call *ast.CallExpr) Val {
	c := env.c
	cenv := cl.Env
	sub := *cenv
	sub.depth = env.depth + 1
	sub.noSafety = env.noSafety || cenv.noSafety
	if env.contract || env.noSafety {
		sub.noSafety = true
	}
	sub.old = env.old
	sub.oldMode = env.oldMode
	sub.qvars, sub.qnames = env.qvars, env.qnames
	sig, _ := cenv.typeOfExpr(cl.Lit).(*types.Signature)
	i := 0
	sub.bound = map[string]Val{}
	for k, v := range cenv.bound {
		sub.bound[k] = v
	}
	var objs []types.Object
	for _, f := range cl.Lit.Type.Params.List {
		for _, n := range f.Names {
			if i < len(args) {
				a := args[i]
				if sig != nil && i < sig.Params().Len() {
					a = sub.coerce(a, sig.Params().At(i).Type(), st)
				}
				if cenv.contract {
					sub.bound[n.Name] = a
				} else if o := cenv.pkg.info.Defs[n]; o != nil {
					st.vars[o] = a
					objs = append(objs, o)
				}
			}
			i++
		}
	}
	body := cl.Lit.Body
	if len(body.List) == 1 {
		if ret, ok := body.List[0].(*ast.ReturnStmt); ok && len(ret.Results) == 1 {
			r := sub.eval(ret.Results[0], st)
			if sig != nil && sig.Results().Len() == 1 {
				r = sub.coerce(r, sig.Results().At(0).Type(), st)
			}
			return r
		}
	}
	if cenv.contract {
		c.unsupported("%s: multi-statement closure in contract", c.e.pos(call.Pos()))
		return Val{T: c.fresh("unk", "Int"), Ty: tInt}
	}
	c.inlineDepth++
	oldTag := c.inlineTag
	c.inlineTag = prefixTag(oldTag) + "closure"
	var rs []*types.Var
	if cl.Lit.Type.Results != nil {
		for _, f := range cl.Lit.Type.Results.List {
			for _, n := range f.Names {
				if v, ok := cenv.pkg.info.Defs[n].(*types.Var); ok {
					rs = append(rs, v)
					st.vars[v] = sub.zero(v.Type())
				}
			}
		}
	}
	fr := &frame{env: &sub, resultObjs: rs, sig: sig}
	c.frames = append(c.frames, fr)
	base := len(st.pc)
	outs := c.execBlock(&sub, body.List, []*State{st.clone()})
	for _, o := range outs {
		fr.returns = append(fr.returns, retState{st: o, vals: fr.namedResults(o)})
	}
	c.frames = c.frames[:len(c.frames)-1]
	c.inlineTag = oldTag
	c.inlineDepth--
	return c.mergeReturns(env, st, base, fr, sig)
}

// mergeReturns folds the return states of an inlined body back into st.
func (c *Ctx) mergeReturns(env *Env, st *State, base int, fr *frame, sig *types.Signature) Val {
	rets := fr.returns
	if len(rets) == 0 {
		st.assume("false")
		if sig != nil && sig.Results().Len() > 0 {
			return env.havocResults(sig, st, "dead")
		}
		return Val{}
	}
	if len(rets) == 1 {
		r := rets[0]
		st.vars, st.heap, st.pc, st.seen, st.held, st.ghost = r.st.vars, r.st.heap, r.st.pc, r.st.seen, r.st.held, r.st.ghost
		return tupleOf(r.vals)
	}
	// guards
	guards := make([]string, len(rets))
	for i, r := range rets {
		g := c.fresh("path", "Bool")
		guards[i] = g
		st.assume(implies(g, and(r.st.pc[base:]...)))
	}
	st.assume(or(guards...))
	// heap and variables
	keys := map[string]bool{}
	for _, r := range rets {
		for k := range r.st.heap {
			keys[k] = true
		}
	}
	for _, k := range sortedKeys(keys) {
		t := ""
		for i := len(rets) - 1; i >= 0; i-- {
			h, ok := rets[i].st.heap[k]
			if !ok {
				h = st.heap[k]
				if h == "" {
					h = "|H:" + k + "|"
				}
			}
			if t == "" {
				t = h
			} else {
				t = ite(guards[i], h, t)
			}
		}
		st.heap[k] = t
	}
	for o, v0 := range st.vars {
		t := ""
		changed := false
		for i := len(rets) - 1; i >= 0; i-- {
			v, ok := rets[i].st.vars[o]
			if !ok {
				v = v0
			}
			if v.T != v0.T {
				changed = true
			}
			if t == "" {
				t = v.T
			} else {
				t = ite(guards[i], v.T, t)
			}
		}
		if changed && v0.T != "" {
			st.vars[o] = Val{T: t, Ty: v0.Ty}
		}
	}
	for k := range st.held {
		for _, r := range rets {
			if !r.st.held[k] {
				delete(st.held, k)
			}
		}
	}
	for _, r := range rets {
		for k := range r.st.held {
			if !st.held[k] {
				// lock taken on some path only: treat as held if held on all
				all := true
				for _, r2 := range rets {
					if !r2.st.held[k] {
						all = false
					}
				}
				if all {
					st.held[k] = true
				}
			}
		}
	}
	n := len(rets[0].vals)
	outs := make([]Val, n)
	for j := 0; j < n; j++ {
		t := ""
		for i := len(rets) - 1; i >= 0; i-- {
			if j >= len(rets[i].vals) {
				continue
			}
			if t == "" {
				t = rets[i].vals[j].T
			} else {
				t = ite(guards[i], rets[i].vals[j].T, t)
			}
		}
		outs[j] = Val{T: t, Ty: rets[0].vals[j].Ty}
		if sig != nil && j < sig.Results().Len() {
			outs[j].Ty = env.subst(sig.Results().At(j).Type())
		}
	}
	return tupleOf(outs)
}

func tupleOf(vs []Val) Val {
	switch len(vs) {
	case 0:
		return Val{}
	case 1:
		return vs[0]
	}
	return Val{Tuple: vs}
}

var exprCache = map[string]ast.Expr{}

func parseExprCached(s string) (ast.Expr, error) {
	if e, ok := exprCache[s]; ok {
		return e, nil
	}
	e, err := parseGoExpr(s)
	if err == nil {
		exprCache[s] = e
	}
	return e, err
}

// havocGuarded forgets the lock-protected fields of an object whose lock is not held.
func (env *Env) havocGuarded(recv Val, st *State) {
	c := env.c
	_, sty, isPtr := structOf(env.subst(recv.Ty))
	if sty == nil || !isPtr || c.freshRefs[recv.T] {
		return
	}
	ssort := env.structSortOf(recv.Ty)
	ts := c.e.typeSpecForSort(ssort)
	if ts == nil {
		return
	}
	for mu, fs := range ts.Guards {
		if st.held[recv.T+"."+mu] {
			continue
		}
		for _, f := range fs {
			for i := 0; i < sty.NumFields(); i++ {
				if sty.Field(i).Name() == f {
					key := ssort + "." + f
					h := env.heapTerm(st, key, env.sortOf(sty.Field(i).Type()))
					nv := env.havoc(st, "unstable_"+f, sty.Field(i).Type())
					st.heap[key] = app("store", h, recv.T, nv.T)
					// the caller's own transition starts from the state the callee observed
					if c.inlineTag == "" && c.entry != nil && !c.lockedOnce[recv.T+"."+mu] && !env.contract {
						c.entry.heap[key] = st.heap[key]
					}
				}
			}
		}
		for _, inv := range ts.LockInv[mu] {
			e2 := &Env{c: c, pkg: &pkgRef{info: ts.Pkg.TypesInfo, types: ts.Pkg.Types, files: ts.Pkg.Syntax}, contract: true, bound: map[string]Val{"self": recv}, tsubst: env.tsubst, noSafety: true}
			st.assume(e2.evalBool(inv.Expr, st))
		}
	}
}

// lockToken evaluates "x.mu" to the lock token of object x.
func (env *Env) lockToken(ce *Env, h string, st *State) string {
	base, mu, ok := cutLast(h, ".")
	if !ok {
		return h
	}
	ex, err := parseExprCached(base)
	if err != nil {
		return h
	}
	return ce.eval(ex, st).T + "." + mu
}

// doYield: inside a generator body, yield(v...) appends to the ghost output sequences.
func (env *Env) doYield(args []Val, st *State, call *ast.CallExpr) Val {
	c := env.c
	stopped := st.ghost["stopped_"]
	if !c.noSafety {
		name := fmt.Sprintf("gen/yield-after-stop#%d", c.ordinal("gen/yield"))
		c.addObl(st, name, "gen", not(stopped.T), c.e.pos(call.Pos()), "no yield after the consumer stopped the iteration", nil)
	}
	for i, a := range args {
		key := "out_"
		if i == 1 {
			key = "out2_"
		}
		out := st.ghost[key]
		if out.Ty == nil {
			continue
		}
		ss := env.sortOf(out.Ty)
		el := elemOf(out.Ty)
		av := env.coerce(a, el, st)
		ln := app("len_"+ss, out.T)
		st.ghost[key] = Val{T: app("mk_"+ss, app("store", app("arr_"+ss, out.T), ln, av.T), app("+", ln, "1")), Ty: out.Ty}
	}
	cont := c.fresh("cont", "Bool")
	st.ghost["stopped_"] = Val{T: or(stopped.T, not(cont)), Ty: tBool}
	return boolVal(cont)
}

// frameType resolves "Type" or "pkg.Type" in a modifies clause.
func (env *Env) frameType(base string) types.Type {
	if _, isBound := env.bound[base]; isBound {
		return nil
	}
	if tn, ok := env.lookupName(base).(*types.TypeName); ok {
		return tn.Type()
	}
	if pkg, name, ok := strings.Cut(base, "."); ok && !strings.Contains(name, ".") {
		if pn, ok := env.lookupName(pkg).(*types.PkgName); ok {
			if tn, ok := pn.Imported().Scope().Lookup(name).(*types.TypeName); ok {
				return tn.Type()
			}
		}
		// any package of that name reachable from the loaded packages
		for _, p := range env.c.e.pkgs {
			if p.Name == pkg {
				if tn, ok := p.Types.Scope().Lookup(name).(*types.TypeName); ok {
					return tn.Type()
				}
			}
			for _, ip := range p.Types.Imports() {
				if ip.Name() == pkg {
					if tn, ok := ip.Scope().Lookup(name).(*types.TypeName); ok {
						return tn.Type()
					}
				}
			}
		}
		// package imported by the code file but not by the contract file
		if env.pkg != nil && env.pkg.types != nil {
			for _, ip := range env.pkg.types.Imports() {
				if ip.Name() == pkg {
					if tn, ok := ip.Scope().Lookup(name).(*types.TypeName); ok {
						return tn.Type()
					}
				}
			}
		}
	}
	return nil
}

func (c *Ctx) hasRealField(t types.Type, name string) bool {
	_, sty, _ := structOf(t)
	if sty == nil {
		return false
	}
	for i := 0; i < sty.NumFields(); i++ {
		if sty.Field(i).Name() == name {
			return true
		}
	}
	return false
}

// callHooks: per-path call log, `order` and `atcall` clauses of the function under verification.
func (env *Env) callHooks(fobj *types.Func, recv *Val, args []Val, st *State, call *ast.CallExpr) {
	env.callHooksNamed(fobj.Name(), recv, args, st, call)
	if recv == nil && fobj.Pkg() != nil {
		// package-level functions are also logged with their package name: called("slices.Clone")
		st.calls = append(st.calls, fobj.Pkg().Name()+"."+fobj.Name())
	}
}

func (env *Env) callHooksNamed(name string, recv *Val, args []Val, st *State, call *ast.CallExpr) {
	c := env.c
	if env.contract || env.noSafety || c.inlineTag != "" || c.fi.Contract == nil {
		st.calls = append(st.calls, name)
		return
	}
	con := c.fi.Contract
	for _, od := range con.Orders {
		if od[0] == name {
			found := false
			for _, p := range st.calls {
				if p == od[1] {
					found = true
				}
			}
			goal := "false"
			if found {
				goal = "true"
			}
			c.addObl(st, fmt.Sprintf("order/%s-after-%s#%d", od[0], od[1], c.ordinal("order/"+od[0])), "order", goal, c.e.pos(call.Pos()),
				fmt.Sprintf("every call of %s is preceded by a call of %s", od[0], od[1]), nil)
		}
	}
	for k, ac := range con.AtCalls {
		callee, occ, hasOcc := strings.Cut(ac.Callee, "@")
		if callee != name {
			continue
		}
		if hasOcc {
			// Name@N: only the N-th call of that name in source order
			if fmt.Sprint(c.callOccurrence(name, call)) != occ {
				continue
			}
		}
		ie := c.invEnv(env, call.Pos(), nil)
		for i, a := range args {
			ie.bound[fmt.Sprintf("arg%d", i)] = a
		}
		if recv != nil {
			ie.bound["recv_"] = *recv
		}
		// a clause that cannot be evaluated at this call (it names a value that does not exist
		// here, e.g. because the call was moved before the statement that computes it) is a failed
		// obligation of this call, not a reason to give up the whole function
		g, fits := c.evalLoopClause(ie, ac.Clause, st)
		text := "atcall " + name + ": " + ac.Clause.Text
		if !fits {
			g = "false"
			text += " (cannot be evaluated at this call: " + c.staleClauses[len(c.staleClauses)-1] + ")"
		}
		c.curGroup = ac.Clause.Group
		c.addObl(st, fmt.Sprintf("atcall%d:%s#%d", c.ordinal("atcall/"+name), name, k), "atcall", g, c.e.pos(call.Pos()), text, nil)
		c.curGroup = ""
	}
	st.calls = append(st.calls, name)
}

// callOccurrence: index of this call among the calls of functions/methods called `name`
// in the source order of the function under verification.
func (c *Ctx) callOccurrence(name string, call *ast.CallExpr) int {
	if c.callOcc == nil {
		c.callOcc = map[*ast.CallExpr]int{}
		counts := map[string]int{}
		if c.fi.Decl != nil && c.fi.Decl.Body != nil {
			ast.Inspect(c.fi.Decl.Body, func(n ast.Node) bool {
				if ce, ok := n.(*ast.CallExpr); ok {
					nm := ""
					switch f := unparen(ce.Fun).(type) {
					case *ast.Ident:
						nm = f.Name
					case *ast.SelectorExpr:
						nm = f.Sel.Name
					}
					if nm != "" {
						c.callOcc[ce] = counts[nm]
						counts[nm]++
					}
				}
				return true
			})
		}
	}
	if k, ok := c.callOcc[call]; ok {
		return k
	}
	return -1
}

// genericInstances: for a generic named struct type written without type arguments, the struct
// sorts of its instantiations known so far (nil for non-generic types).
func (c *Ctx) genericInstances(tt types.Type, base string) []string {
	n, ok := types.Unalias(tt).(*types.Named)
	if !ok || n.TypeParams() == nil || n.TypeParams().Len() == 0 || (n.TypeArgs() != nil && n.TypeArgs().Len() > 0) {
		return nil
	}
	if !strings.HasPrefix(base, "St_") {
		return nil // library types are one opaque sort whatever their type arguments
	}
	var out []string
	for name := range c.e.types.structs {
		if strings.HasPrefix(name, base+"_") {
			out = append(out, name)
		}
	}
	sort.Strings(out)
	if out == nil {
		out = []string{}
	}
	return out
}


// instanceSubst completes a type substitution with the type arguments the type checker
// recorded for this call (explicit f[T]() or inferred).
func (env *Env) instanceSubst(ts map[*types.TypeParam]types.Type, fi *FuncInfo, call *ast.CallExpr) map[*types.TypeParam]types.Type {
	if call == nil || fi == nil || fi.Obj == nil || env.pkg == nil || env.pkg.info == nil {
		return ts
	}
	sig, ok := fi.Obj.Type().(*types.Signature)
	if !ok || sig.TypeParams() == nil || sig.TypeParams().Len() == 0 {
		return ts
	}
	fun := unparen(call.Fun)
	for {
		switch x := fun.(type) {
		case *ast.IndexExpr:
			fun = unparen(x.X)
			continue
		case *ast.IndexListExpr:
			fun = unparen(x.X)
			continue
		}
		break
	}
	var id *ast.Ident
	switch x := fun.(type) {
	case *ast.Ident:
		id = x
	case *ast.SelectorExpr:
		id = x.Sel
	}
	if id == nil {
		return ts
	}
	inst, ok := env.pkg.info.Instances[id]
	if !ok || inst.TypeArgs == nil {
		return ts
	}
	if ts == nil {
		ts = map[*types.TypeParam]types.Type{}
	}
	for i := 0; i < sig.TypeParams().Len() && i < inst.TypeArgs.Len(); i++ {
		tp := sig.TypeParams().At(i)
		if _, have := ts[tp]; !have {
			ts[tp] = env.subst(inst.TypeArgs.At(i))
		}
	}
	return ts
}

package main

import (
	"regexp"
	"encoding/json"
	"flag"
	"fmt"
	"os"
	"path/filepath"
	"sort"
	"strconv"
	"strings"
	"time"
)

type KnownFinding struct {
	Property   string `json:"property"`
	Obligation string `json:"obligation"` // obligation name prefix (without @retN suffix variations)
	What       string `json:"what"`
	Status     string `json:"status"` // "open" | "fixed"
	Commit     string `json:"commit,omitempty"`
	Input      string `json:"input,omitempty"`
}

type Baseline struct {
	Obligations map[string][]string `json:"obligations"` // property -> obligation names discharged on the unchanged tree
	Unreachable map[string][]string `json:"unreachable"` // property -> vacuity covers known to be unreachable on the unchanged tree
}

func has(xs []string, x string) bool {
	for _, y := range xs {
		if y == x {
			return true
		}
	}
	return false
}

// contractDirs scans /repo for verif contract files mentioning the property.
func contractDirs(repo, prop string) []string {
	dirs := map[string]bool{}
	filepath.Walk(repo, func(p string, info os.FileInfo, err error) error {
		if err != nil {
			return nil
		}
		if info.IsDir() && (info.Name() == ".git" || info.Name() == "node_modules") {
			return filepath.SkipDir
		}
		if !info.IsDir() && strings.HasSuffix(p, "_verif.go") {
			b, _ := os.ReadFile(p)
			for _, l := range strings.Split(string(b), "\n") {
				l = strings.TrimSpace(l)
				if strings.HasPrefix(l, "//@") && strings.Contains(l, "property") {
					if prop == "all" || has(strings.Fields(l), prop) {
						rel, _ := filepath.Rel(repo, filepath.Dir(p))
						dirs["./"+rel] = true
					}
				}
			}
		}
		return nil
	})
	return sortedKeys(dirs)
}

func main() {
	if len(os.Args) < 2 {
		fmt.Fprintln(os.Stderr, "usage: govc check|dump ...")
		os.Exit(2)
	}
	cmd := os.Args[1]
	fs := flag.NewFlagSet(cmd, flag.ExitOnError)
	repo := fs.String("repo", "/repo", "repository root")
	overlay := fs.String("overlay", "", "go build overlay json (generated pb files, mutants)")
	prop := fs.String("prop", "all", "property id")
	tier := fs.String("tier", "quick", "quick|thorough")
	evidence := fs.String("evidence", "", "evidence file to write")
	baseline := fs.String("baseline", "", "baseline obligations file")
	known := fs.String("known", "", "known findings file")
	replays := fs.String("replays", "", "directory for replay files")
	work := fs.String("work", "", "scratch directory for smt files")
	only := fs.String("func", "", "restrict to one function key (debug)")
	updateBaseline := fs.Bool("update-baseline", false, "rewrite the baseline entry of this property (developer use only)")
	verbose := fs.Bool("v", false, "verbose")
	expect := fs.String("expect-fail", "", "selftest: comma separated obligation name prefixes expected to fail")
	fs.Parse(os.Args[2:])
	t0 := time.Now()
	seed, _ := strconv.Atoi(os.Getenv("VERIF_SEED"))

	dirs := contractDirs(*repo, *prop)
	if len(dirs) == 0 {
		fatal("no contract files mention property %s", *prop)
	}
	e := load(*repo, *overlay, dirs)
	if *prop != "all" {
		e.curProp = *prop
	}
	e.resolveScopes()
	if len(e.loadErrs) > 0 {
		// the tree does not type-check: nothing can be decided
		for _, er := range e.loadErrs {
			fmt.Fprintln(os.Stderr, "load error:", er)
		}
		fatal("/repo does not type-check with -tags verif (%d errors)", len(e.loadErrs))
	}
	tLoad := time.Since(t0)

	var results []*FuncResult
	var fkeys []string
	for k, fi := range e.funcs {
		if fi.Contract == nil {
			continue
		}
		if *only != "" && k != *only {
			continue
		}
		if *prop != "all" && !has(fi.Contract.Props, *prop) {
			continue
		}
		fkeys = append(fkeys, k)
	}
	sort.Strings(fkeys)
	for _, k := range fkeys {
		results = append(results, e.verifyFunc(e.funcs[k]))
	}
	for _, l := range e.lemmas {
		if *only != "" && "lemma."+l.Name != *only {
			continue
		}
		if *prop != "all" && !has(l.Props, *prop) {
			continue
		}
		results = append(results, e.verifyLemma(l))
	}
	tGen := time.Since(t0) - tLoad

	var obls []*Obligation
	for _, r := range results {
		obls = append(obls, r.Obls...)
	}
	if cmd == "dump" {
		for _, o := range obls {
			fmt.Printf("=== %s [%s] %s\n%s\n", o.Name, o.Where, o.Clause, e.query(o, false, false))
		}
		for _, r := range results {
			if r.Outside != "" {
				fmt.Printf("OUTSIDE %s: %s\n", r.Key, r.Outside)
			}
		}
		return
	}
	wdir := *work
	if wdir == "" {
		wdir, _ = os.MkdirTemp("", "govc-")
		tmpWork = wdir
	}
	cfg := &SolverCfg{Dir: wdir, FirstMS: 10000, RaceMS: 10000, CoverMS: 4000, HeadMS: 1500, Workers: 16, Seed: seed}
	if *tier == "thorough" {
		cfg.FirstMS, cfg.RaceMS, cfg.Second, cfg.CoverMS = 20000, 60000, true, 15000
	}
	e.dischargeAll(obls, cfg)
	tSolve := time.Since(t0) - tLoad - tGen

	rep := e.report(*prop, *tier, seed, results, obls, *baseline, *known, *replays, *updateBaseline, *verbose, *expect)
	rep.Timing = map[string]float64{"load_s": tLoad.Seconds(), "vcgen_s": tGen.Seconds(), "solve_s": tSolve.Seconds()}
	rep.Wall = time.Since(t0).Seconds()
	if *evidence != "" {
		rep.writeEvidence(*evidence, strings.Join(os.Args, " "))
	}
	if tmpWork != "" {
		os.RemoveAll(tmpWork)
	}
	os.Exit(rep.Exit)
}

// tmpWork: scratch directory created by this run (removed before exit; os.Exit skips defers)
var tmpWork string

type Report struct {
	Prop, Tier string
	Seed       int
	Exit       int
	Wall       float64
	Timing     map[string]float64
	Total, Discharged int
	Failed     []*Obligation
	KnownHit   []string
	Undecided  []string
	Broken     []string
	Funcs      []string
	TrustedFns []string
	Trusted    []string
	Unspec     []string
	Samples    []map[string]any
	BySolver   map[string]int
	Second     int
	Covers     int
	SolverMS   int64
	Violations int
	Bounded    []string
	Callees    []string
	Unreachable []string
	Slow       int
	ReplayNotes []string
}

func (e *Engine) report(prop, tier string, seed int, results []*FuncResult, obls []*Obligation, baselineFile, knownFile, replayDir string, updateBaseline, verbose bool, expect string) *Report {
	rep := &Report{Prop: prop, Tier: tier, Seed: seed, BySolver: map[string]int{}}
	var known []KnownFinding
	if knownFile != "" {
		if b, err := os.ReadFile(knownFile); err == nil {
			json.Unmarshal(b, &known)
		}
	}
	var base Baseline
	if baselineFile != "" {
		if b, err := os.ReadFile(baselineFile); err == nil {
			json.Unmarshal(b, &base)
		}
	}
	if base.Obligations == nil {
		base.Obligations = map[string][]string{}
	}
	trusted := map[string]bool{}
	unspec := map[string]bool{}
	callees := map[string]bool{}
	for _, r := range results {
		if r.Trust {
			rep.TrustedFns = append(rep.TrustedFns, r.Key)
			continue
		}
		if r.Outside != "" {
			rep.Undecided = append(rep.Undecided, fmt.Sprintf("%s: %s", r.Key, r.Outside))
			fmt.Printf("UNDECIDED property=%s %s %s\n", prop, r.Key, r.Outside)
			continue
		}
		rep.Funcs = append(rep.Funcs, r.Key)
		for _, t := range r.Trusted {
			trusted[t] = true
		}
		for _, u := range r.Unspecified {
			unspec[u] = true
		}
		for _, cl := range r.Callees {
			callees[cl] = true
		}
	}
	rep.Trusted = sortedKeys(trusted)
	rep.Unspec = sortedKeys(unspec)
	rep.Callees = sortedKeys(callees)
	names := map[string]bool{}
	reach, hasRet, retReach := map[string]bool{}, map[string]bool{}, map[string]bool{}
	defer func() {
		for f := range hasRet {
			if !retReach[f] {
				rep.Broken = append(rep.Broken, "vacuous: no return path of "+f+" is reachable")
				fmt.Fprintf(os.Stderr, "BROKEN-CHECK property=%s vacuous: no return path of %s is reachable\n", prop, f)
				if rep.Exit == 0 {
					rep.Exit = 2
				}
			}
		}
	}()
	var dischargedNames []string
	for _, o := range obls {
		rep.SolverMS += o.TimeMS
		if o.Cover {
			rep.Covers++
			if o.Status == "unsat" {
				if strings.HasSuffix(o.Name, "/pre") {
					rep.Broken = append(rep.Broken, "vacuous: "+o.Name+" is unsatisfiable (contradictory precondition)")
				} else {
					rep.Unreachable = append(rep.Unreachable, o.Name)
				}
			} else {
				reach[o.Func] = true
			}
			if strings.Contains(o.Name, "/return#") {
				hasRet[o.Func] = true
				if o.Status != "unsat" {
					retReach[o.Func] = true
				}
			}
			continue
		}
		rep.Total++
		names[o.Name] = true
		if o.Status == "unsat" {
			rep.Discharged++
			rep.BySolver[o.Solver]++
			if o.Second != "" {
				rep.Second++
			}
			dischargedNames = append(dischargedNames, o.Name)
			if len(rep.Samples) < 4 && o.Solver != "trivial" {
				q := e.query(o, false, false)
				if len(q) > 1800 {
					q = "...\n" + q[len(q)-1800:]
				}
				rep.Samples = append(rep.Samples, map[string]any{"obligation": o.Name, "where": o.Where, "clause": o.Clause, "solver": o.Solver, "ms": o.TimeMS, "smt2_tail": q})
			}
			if verbose {
				fmt.Printf("  ok   %-70s %s %dms\n", o.Name, o.Solver, o.TimeMS)
			}
			continue
		}
		if o.Status == "error" {
			rep.Broken = append(rep.Broken, "solver error on "+o.Name+": "+strings.SplitN(o.Model, "\n", 2)[0])
			continue
		}
		rep.Failed = append(rep.Failed, o)
	}
	// obligations that were discharged on the unchanged tree but are not generated any more
	if !updateBaseline {
		// compared at clause level: the same clause checked at fewer return statements, loop paths
		// or call occurrences than before (a return merged, a call removed) is not a loss
		stems := map[string]bool{}
		for n := range names {
			stems[oblStem(n)] = true
		}
		for _, n := range base.Obligations[prop] {
			if !names[n] && stems[oblStem(n)] {
				continue
			}
			if !names[n] {
				fn := strings.SplitN(n, "/", 2)[0]
				und := false
				for _, u := range rep.Undecided {
					if strings.HasPrefix(u, fn+":") || strings.HasPrefix(u, strings.TrimPrefix(fn, "lemma.")+":") {
						und = true
					}
				}
				if !und {
					rep.Undecided = append(rep.Undecided, fmt.Sprintf("%s: baseline obligation no longer generated (function restructured?)", n))
					fmt.Printf("UNDECIDED property=%s %s baseline obligation no longer generated\n", prop, n)
				}
			}
		}
	}
	expected := map[string]bool{}
	for _, x := range strings.Split(expect, ",") {
		if x = strings.TrimSpace(x); x != "" {
			expected[x] = true
		}
	}
	for _, o := range rep.Failed {
		// known finding?
		matched := false
		for _, k := range known {
			if k.Status == "open" && k.Property == prop && strings.HasPrefix(o.Name, k.Obligation) {
				fmt.Printf("KNOWN-FINDING: property=%s %s %s\n", prop, o.Name, k.What)
				rep.KnownHit = append(rep.KnownHit, o.Name)
				matched = true
				break
			}
		}
		if matched {
			continue
		}
		rep.Violations++
		path := ""
		suffix := ""
		if replayDir != "" {
			path, suffix = e.writeReplay(replayDir, prop, o, rep)
		}
		fmt.Printf("  FAIL %s [%s] status=%s solver=%s: %s\n", o.Name, o.Where, o.Status, o.Solver, o.Clause)
		fmt.Printf("VIOLATION property=%s replay=%s%s\n", prop, path, suffix)
	}
	// rejected: obligations that were discharged on the unchanged tree (baseline) and cannot even be
	// generated or reached any more. The verifier does not accept the tree: reported like a failed
	// obligation (no input), never silently passed. Functions that were never decided stay UNDECIDED.
	reject := func(name, reason string) {
		if updateBaseline {
			return
		}
		for _, k := range known {
			if k.Status == "open" && k.Property == prop && strings.HasPrefix(name, k.Obligation) {
				return
			}
		}
		rep.Violations++
		path := ""
		if replayDir != "" {
			d := filepath.Join(replayDir, prop)
			os.MkdirAll(d, 0o755)
			path = filepath.Join(d, safeName(name)+".json")
			b, _ := json.MarshalIndent(map[string]any{"property": prop, "obligation": name, "status": "rejected", "solver": "none",
				"solver_output": reason, "clause": "obligations discharged on the unchanged tree can no longer be generated from the current tree",
				"where": ""}, "", " ")
			os.WriteFile(path, b, 0o644)
		}
		fmt.Printf("  FAIL %s [] status=rejected solver=none: %s\n", name, reason)
		fmt.Printf("VIOLATION property=%s replay=%s no-failing-input-found\n", prop, path)
	}
	for _, r := range results {
		if r.Outside == "" || r.Trust {
			continue
		}
		inBase := false
		for _, n := range base.Obligations[prop] {
			if strings.HasPrefix(n, r.Key+"/") || strings.HasPrefix(n, "lemma."+r.Key+"/") {
				inBase = true
				break
			}
		}
		if inBase {
			reject(r.Key+"/generation", r.Outside)
		}
	}
	for _, u := range rep.Undecided {
		if i := strings.Index(u, ": baseline obligation no longer generated"); i > 0 {
			reject(u[:i], "baseline obligation no longer generated (the function was restructured so that the contract clause has no counterpart)")
		}
	}
	for _, b := range rep.Broken {
		fmt.Fprintf(os.Stderr, "BROKEN-CHECK property=%s %s\n", prop, b)
	}
	if rep.Total == 0 && len(rep.Undecided) == 0 {
		rep.Broken = append(rep.Broken, "no obligations generated")
		fmt.Fprintf(os.Stderr, "BROKEN-CHECK property=%s no obligations generated\n", prop)
	}
	// a path that was reachable on the unchanged tree and is dead now: either the code really
	// lost it or an assumption became contradictory - obligations behind it are vacuous
	if !updateBaseline && base.Unreachable != nil {
		for _, u := range rep.Unreachable {
			if !has(base.Unreachable[prop], u) {
				rep.Undecided = append(rep.Undecided, u+": path is unreachable (it was reachable on the unchanged tree)")
				fmt.Printf("UNDECIDED property=%s %s path became unreachable\n", prop, u)
				reject(u, "a path that was reachable on the unchanged tree is unreachable now: the obligations behind it hold vacuously")
			}
		}
	}
	if updateBaseline && baselineFile != "" {
		sort.Strings(dischargedNames)
		if base.Unreachable == nil {
			base.Unreachable = map[string][]string{}
		}
		sort.Strings(rep.Unreachable)
		base.Unreachable[prop] = rep.Unreachable
		base.Obligations[prop] = dischargedNames
		b, _ := json.MarshalIndent(base, "", " ")
		os.WriteFile(baselineFile, b, 0o644)
	}
	var slow []*Obligation
	for _, o := range obls {
		if !o.Cover && o.TimeMS > 2500 {
			slow = append(slow, o)
		}
	}
	sort.Slice(slow, func(i, j int) bool { return slow[i].TimeMS > slow[j].TimeMS })
	for i, o := range slow {
		if i < 8 {
			fmt.Printf("  slow %6dms %s (%s %s)\n", o.TimeMS, o.Name, o.Status, o.Solver)
		}
	}
	rep.Slow = len(slow)
	fmt.Printf("property=%s tier=%s functions=%d obligations=%d discharged=%d failed=%d known=%d undecided=%d covers=%d\n",
		prop, tier, len(rep.Funcs), rep.Total, rep.Discharged, len(rep.Failed), len(rep.KnownHit), len(rep.Undecided), rep.Covers)
	switch {
	case rep.Violations > 0:
		rep.Exit = 1
	case len(rep.Broken) > 0:
		rep.Exit = 2
	}
	return rep
}

func (rep *Report) writeEvidence(path, cmdline string) {
	os.MkdirAll(filepath.Dir(path), 0o755)
	if rep.Samples == nil {
		rep.Samples = []map[string]any{}
	}
	tb := append([]string{}, rep.Trusted...)
	for _, t := range rep.TrustedFns {
		tb = append(tb, "trusted contract (body not verified): "+t)
	}
	for _, u := range rep.Unspec {
		tb = append(tb, "unspecified callee: "+u)
	}
	tb = append(tb, "SMT solvers z3 4.8.12 / z3 5.1.0 / cvc5 1.0 and the govc translation of Go to SMT-LIB",
		"integers are mathematical with the Go type's range assumed at every read; signed overflow assumed absent; unsigned arithmetic wraps explicitly",
		"slices and maps have value semantics (no aliasing of backing arrays between distinct values)")
	var failed []map[string]any
	for _, o := range rep.Failed {
		failed = append(failed, map[string]any{"obligation": o.Name, "status": o.Status, "solver": o.Solver, "where": o.Where, "clause": o.Clause})
	}
	ev := map[string]any{
		"property_id": rep.Prop, "tier": rep.Tier, "seed": rep.Seed, "level": "proof",
		"coverage": map[string]any{
			// obligations = those this run claims proved; an obligation listed as an open known finding is
			// generated and run like any other but reported apart (known_finding_obligations), never as discharged
			"obligations": rep.Total - len(rep.KnownHit), "discharged": rep.Discharged,
			"obligations_generated": rep.Total, "known_finding_obligations": len(rep.KnownHit),
			"checker_cmd": cmdline, "trusted_base": tb, "samples": rep.Samples,
			"functions_under_contract": rep.Funcs, "by_solver": rep.BySolver, "second_solver_agreement": rep.Second,
			"vacuity_covers_reachable": rep.Covers - len(rep.Unreachable), "vacuity_covers_total": rep.Covers, "unreachable_paths": rep.Unreachable,
			"solver_time_ms": rep.SolverMS, "obligations_over_2500ms": rep.Slow, "timing": rep.Timing,
			"undecided": rep.Undecided, "known_findings_hit": rep.KnownHit, "failed": failed,
			"callee_contracts_relied_on": rep.Callees, "bounded_standins": rep.Bounded,
			"explanation": "each obligation is an SMT query generated by govc from the typed AST of /repo's current working tree and the //@ contracts in the verif-tagged contract files; unsat of (assumptions and not goal) = proved for all inputs and iterations",
		},
		"assumptions": tb, "wall_s": rep.Wall, "violations": rep.Violations,
	}
	b, _ := json.MarshalIndent(ev, "", " ")
	os.WriteFile(path, b, 0o644)
}

// writeReplay records a failed obligation; the replay file names the obligation and carries the solver output.
func (e *Engine) writeReplay(dir, prop string, o *Obligation, rep *Report) (string, string) {
	d := filepath.Join(dir, prop)
	os.MkdirAll(d, 0o755)
	path := filepath.Join(d, safeName(o.Name)+".json")
	r := map[string]any{"property": prop, "obligation": o.Name, "where": o.Where, "clause": o.Clause, "status": o.Status, "solver": o.Solver,
		"solver_output": o.Model, "query": e.query(o, true, false)}
	suffix := " no-failing-input-found"
	if rp := e.tryReplay(o, r); rp {
		suffix = ""
	}
	b, _ := json.MarshalIndent(r, "", " ")
	os.WriteFile(path, b, 0o644)
	return path, suffix
}

var stemRes = []*regexp.Regexp{
	regexp.MustCompile(`~\d+$`),
	regexp.MustCompile(`@(ret|p|e)\d+$`),
	regexp.MustCompile(`#\d+$`),
	regexp.MustCompile(`/(atcall|call)\d+:`),
	regexp.MustCompile(`/inl:[^/]*`),
}

// oblStem maps an obligation name to the clause it checks, forgetting at which return statement,
// loop path or call occurrence: f/post#2@ret3 -> f/post#2, f/atcall1:Add#0 -> f/atcall:Add, ...
func oblStem(n string) string {
	n = stemRes[0].ReplaceAllString(n, "")
	n = stemRes[1].ReplaceAllString(n, "")
	if strings.Contains(n, "/safety/") || strings.Contains(n, "/atcall") || strings.Contains(n, "/order/") || strings.Contains(n, "/lock/") {
		n = stemRes[2].ReplaceAllString(n, "")
	}
	n = stemRes[3].ReplaceAllString(n, "/$1:")
	return n
}

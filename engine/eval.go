package main

import (
	"fmt"
	"go/ast"
	"go/constant"
	"go/token"
	"go/types"
	"math/big"
	"strconv"
	"strings"
)

var (
	tInt     = types.Typ[types.Int]
	tBool    = types.Typ[types.Bool]
	tString  = types.Typ[types.String]
	tUntyped = types.Typ[types.UntypedInt]
	tUint64  = types.Typ[types.Uint64]
	tByte    = types.Typ[types.Uint8]
)

func (env *Env) sortOf(t types.Type) string {
	t = env.subst(t)
	if env.c != nil && env.c.bv && t != nil && isInteger(t) {
		// bit-vector mode: scalar integers have exact machine semantics
		return fmt.Sprintf("(_ BitVec %d)", intBits(t))
	}
	return env.c.e.types.sortOf(t)
}

func (env *Env) subst(t types.Type) types.Type {
	if t == nil {
		return t
	}
	if tp, ok := types.Unalias(t).(*types.TypeParam); ok {
		if r, ok := env.tsubst[tp]; ok {
			return r
		}
		if ct := coreType(tp); ct != nil {
			return ct
		}
		return t
	}
	if len(env.tsubst) == 0 {
		return t
	}
	return env.substDeep(t, 0)
}

// substDeep replaces type parameters inside composite types.
func (env *Env) substDeep(t types.Type, depth int) types.Type {
	if depth > 6 || t == nil {
		return t
	}
	switch x := t.(type) {
	case *types.Alias:
		// iter.Seq[T] is an alias of a generic function type
		if x.TypeArgs() != nil && x.TypeArgs().Len() > 0 {
			args := make([]types.Type, x.TypeArgs().Len())
			changed := false
			for i := range args {
				args[i] = env.substDeep(x.TypeArgs().At(i), depth+1)
				if args[i] != x.TypeArgs().At(i) {
					changed = true
				}
			}
			if changed {
				if inst, err := types.Instantiate(nil, x.Origin(), args, false); err == nil {
					return inst
				}
			}
			return t
		}
		return env.substDeep(types.Unalias(t), depth+1)
	case *types.TypeParam:
		if r, ok := env.tsubst[x]; ok {
			return r
		}
		return t
	case *types.Named:
		if x.TypeArgs() != nil && x.TypeArgs().Len() > 0 {
			args := make([]types.Type, x.TypeArgs().Len())
			changed := false
			for i := range args {
				args[i] = env.substDeep(x.TypeArgs().At(i), depth+1)
				if args[i] != x.TypeArgs().At(i) {
					changed = true
				}
			}
			if changed {
				if inst, err := types.Instantiate(nil, x.Origin(), args, false); err == nil {
					return inst
				}
			}
		}
		return t
	case *types.Pointer:
		if e := env.substDeep(x.Elem(), depth+1); e != x.Elem() {
			return types.NewPointer(e)
		}
	case *types.Slice:
		if e := env.substDeep(x.Elem(), depth+1); e != x.Elem() {
			return types.NewSlice(e)
		}
	case *types.Map:
		k, v := env.substDeep(x.Key(), depth+1), env.substDeep(x.Elem(), depth+1)
		if k != x.Key() || v != x.Elem() {
			return types.NewMap(k, v)
		}
	case *types.Signature:
		changed := false
		mk := func(tu *types.Tuple) *types.Tuple {
			vs := make([]*types.Var, tu.Len())
			for i := range vs {
				nt := env.substDeep(tu.At(i).Type(), depth+1)
				if nt != tu.At(i).Type() {
					changed = true
				}
				vs[i] = types.NewVar(tu.At(i).Pos(), tu.At(i).Pkg(), tu.At(i).Name(), nt)
			}
			return types.NewTuple(vs...)
		}
		ps, rs := mk(x.Params()), mk(x.Results())
		if changed {
			return types.NewSignatureType(nil, nil, nil, ps, rs, x.Variadic())
		}
	}
	return t
}

// coreType: a type parameter constrained by a single ~T term behaves like T.
func coreType(tp *types.TypeParam) types.Type {
	iface, ok := tp.Constraint().Underlying().(*types.Interface)
	if !ok || iface.NumEmbeddeds() != 1 {
		return nil
	}
	if u, ok := iface.EmbeddedType(0).(*types.Union); ok && u.Len() == 1 {
		return u.Term(0).Type()
	}
	return nil
}

func boolVal(t string) Val { return Val{T: t, Ty: tBool} }
func intVal(t string) Val  { return Val{T: t, Ty: tInt} }

// zero value of a type
func (env *Env) zero(t types.Type) Val {
	t = env.subst(t)
	s := env.sortOf(t)
	c := env.c
	switch {
	case s == "Int" && isTime(types.Unalias(t)):
		// the zero Time (year 1) is not the epoch: a constant below every Unix-nanosecond value
		c.timeAxioms()
		return Val{T: "time_zero", Ty: t}
	case s == "Int":
		return Val{T: "0", Ty: t}
	case s == "Bool":
		return Val{T: "false", Ty: t}
	case s == "Real":
		return Val{T: "0.0", Ty: t}
	case s == "Str":
		c.decls.declConst("str_empty", "Str")
		c.strAxioms()
		return Val{T: "str_empty", Ty: t}
	case strings.HasPrefix(s, "Sl_"):
		return Val{T: app("mk_"+s, env.zeroArr(s, elemOf(t)), "0"), Ty: t}
	case strings.HasPrefix(s, "Mp_"):
		m := types.Unalias(t).Underlying().(*types.Map)
		ks, vs := env.sortOf(m.Key()), env.sortOf(m.Elem())
		zv := env.zero(m.Elem()).T
		return Val{T: app("mk_"+s, fmt.Sprintf("((as const (Array %s %s)) %s)", ks, vs, zv), fmt.Sprintf("((as const (Array %s Bool)) false)", ks), "0"), Ty: t}
	case strings.HasPrefix(s, "St_"):
		st := c.e.types.structs[s]
		var fs []string
		for i := 0; i < st.NumFields(); i++ {
			fs = append(fs, env.zero(st.Field(i).Type()).T)
		}
		if len(fs) == 0 {
			fs = []string{"0"}
		}
		return Val{T: app("mk_"+s, fs...), Ty: t}
	}
	return Val{T: "nil_" + s, Ty: t}
}

func elemOf(t types.Type) types.Type {
	switch x := types.Unalias(t).Underlying().(type) {
	case *types.Slice:
		return x.Elem()
	case *types.Array:
		return x.Elem()
	case *types.Pointer:
		return elemOf(x.Elem())
	case *types.Basic:
		if x.Info()&types.IsString != 0 {
			return tByte
		}
	}
	return nil
}

func (env *Env) zeroArr(sliceSort string, elem types.Type) string {
	es := env.sortOf(elem)
	z := env.zero(elem).T
	return fmt.Sprintf("((as const (Array Int %s)) %s)", es, z)
}

// rangeAssume adds the type's value-range facts for a freshly read term. Inside a
// quantifier body the fact is tagged with the read term as its trigger, so that the
// quantified axiom built from it is only instantiated on matching reads.
func (env *Env) rangeAssume(st *State, v Val) {
	t := env.subst(v.Ty)
	if t == nil {
		return
	}
	emit := func(fact string) {
		if len(env.qvars) == 0 {
			st.assumeOnce(fact)
			return
		}
		if !patternable(v.T) {
			return
		}
		st.assumeOnce("(! " + fact + " :pattern (" + v.T + "))")
	}
	if lo, hi, ok := intRange(t); ok {
		if env.c.bv {
			return
		}
		if (env.contract || env.noSafety) && intBits(t) == 64 && !isUnsigned(t) {
			return
		}
		if len(v.T) > 0 && (v.T[0] >= '0' && v.T[0] <= '9') {
			return
		}
		emit(fmt.Sprintf("(and (<= %s %s) (<= %s %s))", smtInt(lo), v.T, v.T, smtInt(hi)))
		return
	}
	if _, isPtr := types.Unalias(t).Underlying().(*types.Pointer); isPtr {
		return
	}
	s := env.sortOf(t)
	if strings.HasPrefix(s, "Sl_") {
		if len(env.qvars) > 0 {
			return // lengths of quantified slice reads: not needed, kept out of the axiom set
		}
		emit(fmt.Sprintf("(and (<= 0 (len_%s %s)) (<= (len_%s %s) 9223372036854775807))", s, v.T, s, v.T))
		if a, ok := types.Unalias(t).Underlying().(*types.Array); ok {
			emit(fmt.Sprintf("(= (len_%s %s) %d)", s, v.T, a.Len()))
		}
	}
	if strings.HasPrefix(s, "Mp_") && len(env.qvars) == 0 {
		emit(fmt.Sprintf("(<= 0 (mc_%s %s))", s, v.T))
		// a map with a member is not empty (and so an empty map has no member)
		if m, ok := types.Unalias(t).Underlying().(*types.Map); ok {
			ks := env.sortOf(m.Key())
			emit(fmt.Sprintf("(forall ((k %s)) (! (=> (select (mh_%s %s) k) (> (mc_%s %s) 0)) :pattern ((select (mh_%s %s) k))))", ks, s, v.T, s, v.T, s, v.T))
			// ... and a non-empty map has a member (witness function)
			wit := "mwit_" + s
			env.c.decls.declFun(wit, []string{s}, ks)
			emit(fmt.Sprintf("(=> (> (mc_%s %s) 0) (select (mh_%s %s) (%s %s)))", s, v.T, s, v.T, wit, v.T))
		}
	}
}

func patternable(t string) bool {
	for _, p := range []string{"(select ", "(f_St_", "(apply", "(seq_at", "(|", "(arr_", "(mv_", "(tassert_", "(box_"} {
		if strings.HasPrefix(t, p) {
			return true
		}
	}
	return false
}

// havoc returns a fresh unconstrained value of type t (with its range facts).
func (env *Env) havoc(st *State, name string, t types.Type) Val {
	t = env.subst(t)
	if len(env.qvars) > 0 {
		// inside a quantifier body a fresh value is a skolem function of the bound variables
		c := env.c
		c.nfresh++
		fn := fmt.Sprintf("|%s!%d|", sanitize(name), c.nfresh)
		var sorts []string
		for _, q := range env.qvars {
			sorts = append(sorts, strings.TrimSuffix(strings.SplitN(q, " ", 2)[1], ")"))
		}
		c.decls.declFun(fn, sorts, env.sortOf(t))
		v := Val{T: app(fn, env.qnames...), Ty: t}
		env.rangeAssume(st, v)
		return v
	}
	v := Val{T: env.c.fresh(name, env.sortOf(t)), Ty: t}
	env.rangeAssume(st, v)
	return v
}

func (c *Ctx) strAxioms() {
	c.decls.declFun("str_len", []string{"Str"}, "Int")
	c.decls.axiom("strlen", "(forall ((s Str)) (! (<= 0 (str_len s)) :pattern ((str_len s))))")
	c.decls.declConst("str_empty", "Str")
	c.decls.axiom("strempty", "(forall ((s Str)) (! (= (= (str_len s) 0) (= s str_empty)) :pattern ((str_len s))))")
}

func (env *Env) strLit(s string) Val {
	c := env.c
	c.strAxioms()
	if s == "" {
		return Val{T: "str_empty", Ty: tString}
	}
	name := "|str:" + sanitize(strconv.Quote(s)) + "|"
	if !c.decls.have[name] {
		c.decls.declConst(name, "Str")
		c.decls.axioms = append(c.decls.axioms, fmt.Sprintf("(= (str_len %s) %d)", name, len(s)))
		// distinct from earlier literals
		for _, o := range c.strLits {
			c.decls.axioms = append(c.decls.axioms, fmt.Sprintf("(distinct %s %s)", name, o))
		}
		c.strLits = append(c.strLits, name)
	}
	return Val{T: name, Ty: tString}
}

func constToVal(env *Env, cv constant.Value, t types.Type) (Val, bool) {
	switch cv.Kind() {
	case constant.Bool:
		if constant.BoolVal(cv) {
			return Val{T: "true", Ty: t}, true
		}
		return Val{T: "false", Ty: t}, true
	case constant.Int:
		n, ok := new(big.Int).SetString(cv.ExactString(), 10)
		if !ok {
			return Val{}, false
		}
		if env.c.bv && t != nil {
			return Val{T: bvLit(n, intBits(t)), Ty: t}, true
		}
		return Val{T: smtInt(n), Ty: t}, true
	case constant.String:
		v := env.strLit(constant.StringVal(cv))
		if t != nil {
			v.Ty = t
		}
		return v, true
	case constant.Float:
		if t != nil && isInteger(t) {
			if i := constant.ToInt(cv); i.Kind() == constant.Int {
				return constToVal(env, i, t)
			}
		}
		f, _ := constant.Float64Val(cv)
		return Val{T: strconv.FormatFloat(f, 'f', -1, 64), Ty: t}, true
	}
	return Val{}, false
}

func bvLit(n *big.Int, bits int64) string {
	m := new(big.Int).Mod(n, pow2(bits))
	return fmt.Sprintf("(_ bv%s %d)", m.String(), bits)
}

// resolveIdent finds the object an identifier refers to.
func (env *Env) resolveIdent(id *ast.Ident) types.Object {
	if !env.contract && env.pkg != nil && env.pkg.info != nil {
		if o := env.pkg.info.Uses[id]; o != nil {
			return o
		}
		if o := env.pkg.info.Defs[id]; o != nil {
			return o
		}
	}
	return env.lookupName(id.Name)
}

func (env *Env) lookupName(name string) types.Object {
	if env.pkg == nil || env.pkg.types == nil {
		return nil
	}
	if env.scopePos.IsValid() {
		if sc := env.pkg.types.Scope().Innermost(env.scopePos); sc != nil {
			if _, o := sc.LookupParent(name, env.scopePos); o != nil {
				return o
			}
		}
	}
	if env.fn != nil && env.fn.Decl != nil {
		if sc := env.pkg.info.Scopes[env.fn.Decl.Type]; sc != nil {
			if _, o := sc.LookupParent(name, token.NoPos); o != nil {
				return o
			}
		}
	}
	if o := env.pkg.types.Scope().Lookup(name); o != nil {
		return o
	}
	// imports of any file of the package (contract files import differently from code files)
	for _, f := range env.pkg.files {
		if sc := env.pkg.info.Scopes[f]; sc != nil {
			if o := sc.Lookup(name); o != nil {
				return o
			}
		}
	}
	if o := types.Universe.Lookup(name); o != nil {
		return o
	}
	return nil
}

func (env *Env) evalBool(e ast.Expr, st *State) string {
	v := env.eval(e, st)
	if v.T == "" {
		env.c.unsupported("%s: expression has no boolean value", env.c.e.pos(e.Pos()))
		return env.c.fresh("unk", "Bool")
	}
	return v.T
}

// eval translates an expression to a symbolic value; safety obligations are
// emitted on st's current path condition.
func (env *Env) eval(e ast.Expr, st *State) Val {
	c := env.c
	if e.Pos().IsValid() && !env.contract {
		c.curPos = e.Pos()
	}
	// constants known to the type checker
	if !env.contract && env.pkg != nil && env.pkg.info != nil {
		if tv, ok := env.pkg.info.Types[e]; ok && tv.Value != nil {
			if v, ok := constToVal(env, tv.Value, tv.Type); ok {
				return v
			}
		}
	}
	switch x := e.(type) {
	case *ast.ParenExpr:
		return env.eval(x.X, st)
	case *ast.BasicLit:
		switch x.Kind {
		case token.INT:
			n, ok := new(big.Int).SetString(strings.ReplaceAll(x.Value, "_", ""), 0)
			if !ok {
				c.unsupported("bad int literal %s", x.Value)
				return intVal("0")
			}
			return Val{T: smtInt(n), Ty: tUntyped}
		case token.STRING:
			s, _ := strconv.Unquote(x.Value)
			return env.strLit(s)
		case token.CHAR:
			s, _, _, _ := strconv.UnquoteChar(x.Value[1:len(x.Value)-1], '\'')
			return Val{T: strconv.Itoa(int(s)), Ty: tUntyped}
		case token.FLOAT:
			return Val{T: x.Value, Ty: types.Typ[types.UntypedFloat]}
		}
	case *ast.Ident:
		return env.evalIdent(x, st)
	case *ast.UnaryExpr:
		return env.evalUnary(x, st)
	case *ast.BinaryExpr:
		return env.evalBinary(x, st)
	case *ast.CallExpr:
		return env.evalCall(x, st)
	case *ast.SelectorExpr:
		return env.evalSelector(x, st)
	case *ast.IndexExpr:
		return env.evalIndex(x, st)
	case *ast.IndexListExpr:
		return env.eval(x.X, st)
	case *ast.SliceExpr:
		return env.evalSlice(x, st)
	case *ast.CompositeLit:
		return env.evalComposite(x, st, nil)
	case *ast.StarExpr:
		p := env.eval(x.X, st)
		return env.derefStruct(p, st)
	case *ast.FuncLit:
		sig := env.typeOfExpr(x)
		t := c.fresh("closure", env.sortOf(sig))
		return Val{T: t, Ty: sig, Fn: &Closure{Lit: x, Env: env}}
	case *ast.TypeAssertExpr:
		v := env.eval(x.X, st)
		var tt types.Type
		if x.Type != nil {
			tt = env.typeOfExpr(x.Type)
		}
		if tt == nil {
			return v
		}
		if v.Ty != nil && !strings.HasPrefix(env.sortOf(v.Ty), "If_") && env.sortOf(v.Ty) == env.sortOf(tt) {
			// the operand is already a concrete value of the asserted representation (an argument
			// named before its conversion to the interface-typed parameter)
			return Val{T: v.T, Ty: tt}
		}
		c.trust("type assertion results are uninterpreted functions of the interface value")
		fn := "tassert_" + mangle(env.sortOf(v.Ty)) + "_" + mangle(env.sortOf(tt))
		c.decls.declFun(fn, []string{env.sortOf(v.Ty)}, env.sortOf(tt))
		r := Val{T: app(fn, v.T), Ty: tt}
		env.rangeAssume(st, r)
		return r
	case *ast.KeyValueExpr:
		return env.eval(x.Value, st)
	case *ast.ArrayType, *ast.MapType, *ast.FuncType, *ast.InterfaceType, *ast.StructType, *ast.ChanType:
		return Val{Ty: env.typeOfExpr(e), Bound: true}
	}
	c.unsupported("%s: unsupported expression %T", c.e.pos(e.Pos()), e)
	return Val{T: c.fresh("unk", "Int"), Ty: tInt}
}

// typeOfExpr resolves a type expression (or typed expression) to a Go type.
func (env *Env) typeOfExpr(e ast.Expr) types.Type {
	if !env.contract && env.pkg != nil && env.pkg.info != nil {
		if t := env.pkg.info.TypeOf(e); t != nil {
			return env.subst(t)
		}
	}
	switch x := e.(type) {
	case *ast.Ident:
		if o := env.lookupName(x.Name); o != nil {
			if tn, ok := o.(*types.TypeName); ok {
				return env.subst(tn.Type())
			}
		}
	case *ast.ArrayType:
		el := env.typeOfExpr(x.Elt)
		if el == nil {
			return nil
		}
		if x.Len == nil {
			return types.NewSlice(el)
		}
		if bl, ok := x.Len.(*ast.BasicLit); ok {
			n, _ := strconv.ParseInt(bl.Value, 0, 64)
			return types.NewArray(el, n)
		}
	case *ast.StarExpr:
		if el := env.typeOfExpr(x.X); el != nil {
			return types.NewPointer(el)
		}
	case *ast.MapType:
		k, v := env.typeOfExpr(x.Key), env.typeOfExpr(x.Value)
		if k != nil && v != nil {
			return types.NewMap(k, v)
		}
	case *ast.SelectorExpr:
		if id, ok := x.X.(*ast.Ident); ok {
			if pn, ok := env.lookupName(id.Name).(*types.PkgName); ok {
				if o := pn.Imported().Scope().Lookup(x.Sel.Name); o != nil {
					if tn, ok := o.(*types.TypeName); ok {
						return tn.Type()
					}
				}
			}
		}
	case *ast.FuncType:
		var ps, rs []*types.Var
		if x.Params != nil {
			for _, f := range x.Params.List {
				t := env.typeOfExpr(f.Type)
				n := len(f.Names)
				if n == 0 {
					n = 1
				}
				for i := 0; i < n; i++ {
					ps = append(ps, types.NewVar(token.NoPos, nil, "", t))
				}
			}
		}
		if x.Results != nil {
			for _, f := range x.Results.List {
				rs = append(rs, types.NewVar(token.NoPos, nil, "", env.typeOfExpr(f.Type)))
			}
		}
		return types.NewSignatureType(nil, nil, nil, types.NewTuple(ps...), types.NewTuple(rs...), false)
	case *ast.FuncLit:
		return env.typeOfExpr(x.Type)
	case *ast.IndexExpr:
		return env.typeOfExpr(x.X)
	}
	return nil
}

// readEvent: when the contract of the function under verification orders or constrains the reads
// of a local variable (`order read:scanErr after WriteRun`: an error out-parameter filled in by
// lazily consumed iterators must not be looked at before their consumer ran), every read of that
// variable in code is an event "read:<name>" of the call log. Other variables produce no events.
func (env *Env) readEvent(x *ast.Ident, st *State) {
	c := env.c
	if env.contract || env.noReadEvent || c.fi == nil || c.fi.Contract == nil || c.inlineTag != "" {
		return
	}
	name := "read:" + x.Name
	wanted := false
	for _, od := range c.fi.Contract.Orders {
		if od[0] == name {
			wanted = true
		}
	}
	for _, ac := range c.fi.Contract.AtCalls {
		if callee, _, _ := strings.Cut(ac.Callee, "@"); callee == name {
			wanted = true
		}
	}
	if !wanted {
		return
	}
	env.callHooksNamed(name, nil, nil, st, &ast.CallExpr{Fun: &ast.Ident{NamePos: x.Pos(), Name: name}, Lparen: x.Pos(), Rparen: x.End()})
}

func (env *Env) evalIdent(x *ast.Ident, st *State) Val {
	c := env.c
	if v, ok := env.bound[x.Name]; ok {
		return v
	}
	if env.contract {
		if v, ok := st.ghost[x.Name]; ok && v.Ty != nil {
			return v
		}
	}
	switch x.Name {
	case "true", "false":
		return boolVal(x.Name)
	case "nil":
		return Val{T: "0", Ty: types.Typ[types.UntypedNil]}
	case "_":
		return Val{}
	}
	if strings.HasPrefix(x.Name, "result") && env.results != nil {
		if x.Name == "result" && len(env.results) >= 1 {
			return env.results[0]
		}
		if n, err := strconv.Atoi(strings.TrimPrefix(x.Name, "result")); err == nil && n < len(env.results) {
			return env.results[n]
		}
	}
	o := env.resolveIdent(x)
	switch ob := o.(type) {
	case *types.Var:
		if v, ok := st.vars[ob]; ok {
			env.readEvent(x, st)
			return v
		}
		// package-level variable: a global constant symbol (assumed not modified)
		if ob.Parent() == ob.Pkg().Scope() {
			name := "|glob:" + ob.Pkg().Name() + "." + ob.Name() + "|"
			c.decls.declConst(name, env.sortOf(ob.Type()))
			v := Val{T: name, Ty: ob.Type()}
			if isErrorType(ob.Type()) {
				c.declSentinel(name)
			}
			return v
		}
		if c.closureMode {
			// variable captured from the enclosing function: arbitrary (but fixed) value
			if cv, ok := c.captured[ob]; ok {
				return cv
			}
			sub := *env
			sub.qvars, sub.qnames = nil, nil
			cv := sub.havoc(st, "captured_"+x.Name, ob.Type())
			if c.captured == nil {
				c.captured = map[types.Object]Val{}
			}
			c.captured[ob] = cv
			if c.entry != nil {
				c.entry.vars[ob] = cv
			}
			st.vars[ob] = cv
			return cv
		}
		c.unsupported("%s: variable %s has no symbolic value", c.e.pos(x.Pos()), x.Name)
		return env.havoc(st, x.Name, ob.Type())
	case *types.Const:
		if v, ok := constToVal(env, ob.Val(), ob.Type()); ok {
			return v
		}
	case *types.Nil:
		return Val{T: "0", Ty: types.Typ[types.UntypedNil]}
	case *types.Func:
		fi := c.e.lookupFunc(ob)
		sig := ob.Type()
		return Val{T: c.fresh("fn_"+ob.Name(), env.sortOf(sig)), Ty: sig, Fn: &Closure{Func: fi, Env: env}}
	case *types.TypeName:
		return Val{Ty: env.subst(ob.Type()), Bound: true}
	case *types.PkgName:
		return Val{Bound: true}
	}
	c.unsupported("%s: unresolved identifier %s", c.e.pos(x.Pos()), x.Name)
	return Val{T: c.fresh("unk_"+x.Name, "Int"), Ty: tInt}
}

func (c *Ctx) declSentinel(name string) {
	if c.sentinels[name] {
		return
	}
	c.decls.axioms = append(c.decls.axioms, fmt.Sprintf("(> %s 0)", name))
	for o := range c.sentinels {
		c.decls.axioms = append(c.decls.axioms, fmt.Sprintf("(distinct %s %s)", name, o))
	}
	for _, fe := range c.freshErrs {
		c.decls.axioms = append(c.decls.axioms, fmt.Sprintf("(distinct %s %s)", name, fe))
	}
	c.sentinels[name] = true
	c.sentinelIsAxioms()
}

func (env *Env) evalUnary(x *ast.UnaryExpr, st *State) Val {
	c := env.c
	switch x.Op {
	case token.NOT:
		return boolVal(not(env.evalBool(x.X, st)))
	case token.SUB:
		v := env.eval(x.X, st)
		if c.bv && isInteger(v.Ty) {
			return Val{T: app("bvneg", v.T), Ty: v.Ty}
		}
		r := Val{T: app("-", v.T), Ty: v.Ty}
		return env.wrap(r)
	case token.ADD:
		return env.eval(x.X, st)
	case token.XOR:
		v := env.eval(x.X, st)
		if c.bv {
			return Val{T: app("bvnot", v.T), Ty: v.Ty}
		}
		if isUnsigned(v.Ty) {
			_, hi, _ := intRange(v.Ty)
			return Val{T: app("-", smtInt(hi), v.T), Ty: v.Ty}
		}
		return Val{T: app("-", app("-", v.T), "1"), Ty: v.Ty}
	case token.AND:
		// &CompositeLit -> fresh object; &x.f / &x unsupported
		if cl, ok := x.X.(*ast.CompositeLit); ok {
			return env.newObject(cl, st)
		}
		if id, ok := unparen(x.X).(*ast.Ident); ok && !env.contract {
			// &local: a fresh cell holding the variable's current value. Sound only if the
			// variable is not written afterwards (checked syntactically: single definition).
			if o, ok := env.resolveIdent(id).(*types.Var); ok && !o.IsField() && o.Parent() != o.Pkg().Scope() {
				quiet := *env
				quiet.noReadEvent = true // taking the address is not a read
				v := quiet.eval(id, st)
				ref := env.allocRef(st, v.Ty)
				key := "ptr." + env.sortOf(v.Ty)
				h := env.heapTerm(st, key, env.sortOf(v.Ty))
				st.heap[key] = app("store", h, ref, v.T)
				c.trust("&local creates a cell with the variable's value at that point (variable assumed not written afterwards)")
				return Val{T: ref, Ty: types.NewPointer(v.Ty)}
			}
		}
		c.unsupported("%s: address-of non-literal", c.e.pos(x.Pos()))
		return Val{T: c.fresh("addr", "Int"), Ty: types.NewPointer(tInt)}
	case token.ARROW:
		// channel receive: an arbitrary value of the element type (blocking not modelled)
		c.trust("channel receives yield arbitrary values; blocking and ordering of channel operations are not modelled")
		env.eval(x.X, st)
		c.chanOp(env, "recv", x.X, nil, st, x.Pos())
		var et types.Type = tInt
		if !env.contract {
			if t := env.pkg.info.TypeOf(x); t != nil {
				et = t
			}
		}
		rv := env.havoc(st, "recv", et)
		// ghost history of the values received on this path: recv_
		if !env.contract {
			hist, ok := st.ghost["recv_"]
			ht := types.NewSlice(et)
			if !ok || hist.Ty == nil {
				hist = env.zero(ht)
			}
			if env.sortOf(hist.Ty) == env.sortOf(ht) {
				hs := env.sortOf(ht)
				ln := app("len_"+hs, hist.T)
				st.ghost["recv_"] = Val{T: app("mk_"+hs, app("store", app("arr_"+hs, hist.T), ln, rv.T), app("+", ln, "1")), Ty: ht}
			}
		}
		return rv
	}
	c.unsupported("%s: unary %s", c.e.pos(x.Pos()), x.Op)
	return intVal("0")
}

// wrap applies modular wrap-around for unsigned integer results.
func (env *Env) wrap(v Val) Val {
	if env.c.bv || env.contract {
		return v
	}
	if env.c.fi != nil && env.c.fi.Contract != nil && env.c.fi.Contract.NoWrap && isUnsigned(v.Ty) {
		env.c.trust("nowrap: unsigned counters in " + env.c.fi.Key + " are assumed not to overflow")
		return v
	}
	if isUnsigned(v.Ty) {
		return Val{T: fmt.Sprintf("(mod %s %s)", v.T, pow2(intBits(v.Ty)).String()), Ty: v.Ty}
	}
	return v
}

func arithType(a, b Val) types.Type {
	isUntyped := func(t types.Type) bool {
		bb, ok := t.(*types.Basic)
		return ok && bb.Info()&types.IsUntyped != 0
	}
	if a.Ty == nil {
		return b.Ty
	}
	if b.Ty == nil {
		return a.Ty
	}
	if isUntyped(a.Ty) {
		return b.Ty
	}
	return a.Ty
}

func isConstInt(t string) (*big.Int, bool) {
	if strings.HasPrefix(t, "(- ") && strings.HasSuffix(t, ")") {
		if n, ok := new(big.Int).SetString(t[3:len(t)-1], 10); ok {
			return n.Neg(n), true
		}
		return nil, false
	}
	n, ok := new(big.Int).SetString(t, 10)
	return n, ok
}

func goDiv(a, b string) string {
	if n, ok := isConstInt(b); ok && n.Sign() > 0 {
		return fmt.Sprintf("(ite (>= %s 0) (div %s %s) (- (div (- %s) %s)))", a, a, b, a, b)
	}
	return fmt.Sprintf("(ite (>= %s 0) (ite (> %s 0) (div %s %s) (- (div %s (- %s)))) (ite (> %s 0) (- (div (- %s) %s)) (div (- %s) (- %s))))", a, b, a, b, a, b, b, a, b, a, b)
}

func goMod(a, b string) string {
	if n, ok := isConstInt(b); ok && n.Sign() > 0 {
		return fmt.Sprintf("(ite (>= %s 0) (mod %s %s) (- (mod (- %s) %s)))", a, a, b, a, b)
	}
	return fmt.Sprintf("(- %s (* %s %s))", a, b, goDiv(a, b))
}

func (env *Env) evalBinary(x *ast.BinaryExpr, st *State) Val {
	c := env.c
	switch x.Op {
	case token.LAND:
		a := env.evalBool(x.X, st)
		// evaluate the right operand under the assumption of the left (safety obligations)
		n := len(st.pc)
		st.pc = append(st.pc, a)
		b := env.evalBool(x.Y, st)
		st.pc = dropAssumption(st, n, a)
		return boolVal(and(a, b))
	case token.LOR:
		a := env.evalBool(x.X, st)
		n := len(st.pc)
		na := not(a)
		st.pc = append(st.pc, na)
		b := env.evalBool(x.Y, st)
		st.pc = dropAssumption(st, n, na)
		return boolVal(or(a, b))
	}
	a := env.eval(x.X, st)
	b := env.eval(x.Y, st)
	if c.bv && (isInteger(a.Ty) || isInteger(b.Ty)) {
		return env.evalBinaryBV(x, a, b, st)
	}
	ty := arithType(a, b)
	switch x.Op {
	case token.EQL, token.NEQ:
		r := env.equal(a, b, st)
		if x.Op == token.NEQ {
			r = not(r)
		}
		return boolVal(r)
	case token.LSS, token.LEQ, token.GTR, token.GEQ:
		op := map[token.Token]string{token.LSS: "<", token.LEQ: "<=", token.GTR: ">", token.GEQ: ">="}[x.Op]
		if env.sortOf(ty) == "Str" {
			c.bytesAxioms(env.sortOf(types.NewSlice(tByte)))
			return boolVal(app(op, app("str_cmp", a.T, b.T), "0"))
		}
		if s := env.sortOf(ty); s != "Int" && s != "Real" {
			// ordered type parameter: uninterpreted total order
			fn := "lt_" + s
			c.decls.declFun(fn, []string{s, s}, "Bool")
			c.decls.axiom(fn, fmt.Sprintf("(forall ((a %s) (b %s) (c %s)) (and (not (%s a a)) (=> (and (%s a b) (%s b c)) (%s a c)) (or (%s a b) (= a b) (%s b a))))", s, s, s, fn, fn, fn, fn, fn, fn))
			switch x.Op {
			case token.LSS:
				return boolVal(app(fn, a.T, b.T))
			case token.GTR:
				return boolVal(app(fn, b.T, a.T))
			case token.LEQ:
				return boolVal(not(app(fn, b.T, a.T)))
			default:
				return boolVal(not(app(fn, a.T, b.T)))
			}
		}
		return boolVal(app(op, a.T, b.T))
	case token.ADD:
		if env.sortOf(ty) == "Str" {
			c.strAxioms()
			c.decls.declFun("str_cat", []string{"Str", "Str"}, "Str")
			c.decls.axiom("strcat", "(forall ((a Str) (b Str)) (! (= (str_len (str_cat a b)) (+ (str_len a) (str_len b))) :pattern ((str_cat a b))))")
			return Val{T: app("str_cat", a.T, b.T), Ty: ty}
		}
		return env.wrap(Val{T: app("+", a.T, b.T), Ty: ty})
	case token.SUB:
		return env.wrap(Val{T: app("-", a.T, b.T), Ty: ty})
	case token.MUL:
		return env.wrap(Val{T: app("*", a.T, b.T), Ty: ty})
	case token.QUO:
		env.safety(st, "divzero", not(eq(b.T, "0")), x.Pos())
		if isUnsigned(ty) || env.contract {
			if env.contract && !isUnsigned(ty) {
				return Val{T: goDiv(a.T, b.T), Ty: ty}
			}
			return Val{T: app("div", a.T, b.T), Ty: ty}
		}
		return Val{T: goDiv(a.T, b.T), Ty: ty}
	case token.REM:
		env.safety(st, "divzero", not(eq(b.T, "0")), x.Pos())
		if isUnsigned(ty) {
			return Val{T: app("mod", a.T, b.T), Ty: ty}
		}
		return Val{T: goMod(a.T, b.T), Ty: ty}
	case token.SHL:
		if n, ok := isConstInt(b.T); ok {
			return env.wrap(Val{T: app("*", a.T, pow2(n.Int64()).String()), Ty: a.Ty})
		}
	case token.SHR:
		if n, ok := isConstInt(b.T); ok {
			return Val{T: app("div", a.T, pow2(n.Int64()).String()), Ty: a.Ty}
		}
	case token.AND:
		if n, ok := isConstInt(b.T); ok && n.Sign() > 0 {
			m := new(big.Int).Add(n, big.NewInt(1))
			if new(big.Int).And(m, n).Sign() == 0 { // n = 2^k - 1
				return Val{T: app("mod", a.T, m.String()), Ty: ty}
			}
		}
	}
	// remaining bit operations: uninterpreted (sound over-approximation)
	fn := "bitop_" + strings.Map(func(r rune) rune {
		switch r {
		case '&':
			return 'a'
		case '|':
			return 'o'
		case '^':
			return 'x'
		case '<':
			return 'l'
		case '>':
			return 'r'
		}
		return r
	}, x.Op.String())
	c.decls.declFun(fn, []string{"Int", "Int"}, "Int")
	c.trust("bit operations outside bv mode are uninterpreted functions")
	r := Val{T: app(fn, a.T, b.T), Ty: ty}
	env.rangeAssume(st, r)
	return r
}

func dropAssumption(st *State, n int, a string) []string {
	// remove the temporary assumption at index n, keep anything added after it:
	// read-time type facts are unconditionally true and stay as they are, everything
	// else (callee postconditions ...) holds only under a and is guarded
	pc := st.pc
	if len(pc) == n+1 {
		return pc[:n]
	}
	out := append([]string(nil), pc[:n]...)
	for _, p := range pc[n+1:] {
		if st.seen[p] {
			out = append(out, p)
			continue
		}
		if strings.HasPrefix(p, "(! ") {
			// keep the trigger annotation outermost
			if i := strings.LastIndex(p, " :pattern "); i > 0 {
				out = append(out, "(! "+implies(a, p[3:i])+p[i:])
				continue
			}
		}
		out = append(out, implies(a, p))
	}
	return out
}

// equal builds Go's == for two values.
func (env *Env) equal(a, b Val, st *State) string {
	c := env.c
	isNil := func(v Val) bool {
		bb, ok := v.Ty.(*types.Basic)
		return ok && bb.Kind() == types.UntypedNil
	}
	if isNil(a) && isNil(b) {
		return "true"
	}
	if isNil(a) {
		a, b = b, a
	}
	if isNil(b) {
		s := env.sortOf(a.Ty)
		switch {
		case s == "Int":
			return eq(a.T, "0")
		case strings.HasPrefix(s, "Sl_"):
			c.trust("a nil slice and an empty slice are not distinguished")
			return eq(app("len_"+s, a.T), "0")
		case strings.HasPrefix(s, "Mp_"):
			c.trust("a nil map and an empty map are not distinguished")
			return eq(app("mc_"+s, a.T), "0")
		case strings.HasPrefix(s, "St_"):
			// the address of a struct variable (represented by the struct value) is never nil
			return "false"
		default:
			return eq(a.T, "nil_"+s)
		}
	}
	sa := env.sortOf(a.Ty)
	if strings.HasPrefix(sa, "Sl_") {
		// array values compare element-wise over their length
		j := c.freshBound("j")
		return fmt.Sprintf("(and (= (len_%s %s) (len_%s %s)) (forall ((%s Int)) (=> (and (<= 0 %s) (< %s (len_%s %s))) (= (select (arr_%s %s) %s) (select (arr_%s %s) %s)))))",
			sa, a.T, sa, b.T, j, j, j, sa, a.T, sa, a.T, j, sa, b.T, j)
	}
	return eq(a.T, b.T)
}

func (c *Ctx) freshBound(p string) string {
	c.nfresh++
	return fmt.Sprintf("%s!%d", p, c.nfresh)
}

// safety emits a zero-annotation safety obligation.
func (env *Env) safety(st *State, what, goal string, pos token.Pos) {
	c := env.c
	if env.noSafety || env.contract || c.noSafety {
		return
	}
	if goal == "true" {
		c.ordinal("safety/" + env.tag() + what)
		return
	}
	name := fmt.Sprintf("safety/%s%s#%d", env.tag(), what, c.ordinal("safety/"+env.tag()+what))
	c.addObl(st, name, "safety", goal, c.e.pos(pos), what, nil)
}

func (env *Env) tag() string {
	if env.c.inlineTag != "" {
		return env.c.inlineTag + "/"
	}
	return ""
}

func (env *Env) fieldVar(t types.Type, name string) (*types.Var, []int) {
	obj, idx, _ := types.LookupFieldOrMethod(t, true, env.pkg.types, name)
	if v, ok := obj.(*types.Var); ok {
		return v, idx
	}
	return nil, nil
}

func structOf(t types.Type) (*types.Named, *types.Struct, bool) {
	t = types.Unalias(t)
	ptr := false
	if p, ok := t.Underlying().(*types.Pointer); ok {
		t = types.Unalias(p.Elem())
		ptr = true
	}
	n, _ := t.(*types.Named)
	s, _ := t.Underlying().(*types.Struct)
	return n, s, ptr
}

// selectField reads field `name` of value v (struct value or pointer to struct).
func (env *Env) selectField(v Val, name string, st *State, pos token.Pos) Val {
	c := env.c
	vt := env.subst(v.Ty)
	_, sty, isPtr := structOf(vt)
	if sty == nil {
		// ghost field of an interface-typed value (e.g. the byte stream behind an io.Writer)
		if is := env.sortOf(vt); strings.HasPrefix(is, "If_") {
			if ts := c.e.typeSpecForSort(is); ts != nil {
				if texpr, ok := ts.GhostFields[name]; ok {
					gt := env.ghostTypeOf(ts, name, texpr)
					if gt != nil {
						key := is + ".$" + name
						h := env.heapTermK(st, key, is, env.sortOf(gt))
						r := Val{T: app("select", h, v.T), Ty: gt}
						env.rangeAssume(st, r)
						return r
					}
				}
			}
		}
		c.unsupported("%s: field %s of non-struct %v", c.e.pos(pos), name, vt)
		return Val{T: c.fresh("unk", "Int"), Ty: tInt}
	}
	var fld *types.Var
	for i := 0; i < sty.NumFields(); i++ {
		if sty.Field(i).Name() == name {
			fld = sty.Field(i)
		}
	}
	if fld == nil {
		// promoted through an embedded field
		for i := 0; i < sty.NumFields(); i++ {
			f := sty.Field(i)
			if f.Embedded() {
				if _, inner, _ := structOf(f.Type()); inner != nil {
					for j := 0; j < inner.NumFields(); j++ {
						if inner.Field(j).Name() == name {
							return env.selectField(env.selectField(v, f.Name(), st, pos), name, st, pos)
						}
					}
				}
			}
		}
		if gt := env.ghostFieldType(vt, name); gt != nil && isPtr {
			ssort := env.structSortOf(vt)
			key := ssort + ".$" + name
			h := env.heapTerm(st, key, env.sortOf(gt))
			r := Val{T: app("select", h, v.T), Ty: gt}
			env.rangeAssume(st, r)
			return r
		}
		c.unsupported("%s: no field %s", c.e.pos(pos), name)
		return Val{T: c.fresh("unk", "Int"), Ty: tInt}
	}
	ft := env.fieldType(vt, fld)
	ssort := env.structSortOf(vt)
	if isPtr {
		key := ssort + "." + name
		if k := ptrKind(env, ft); k != 0 {
			env.c.ptrField[key] = k
		}
		h := env.heapTerm(st, key, env.sortOf(ft))
		env.lockDiscipline(st, v, ssort, name, pos)
		r := Val{T: app("select", h, v.T), Ty: ft}
		env.rangeAssume(st, r)
		return r
	}
	if strings.HasPrefix(ssort, "Ext_") {
		// a struct type of another module is an uninterpreted sort: its fields are functions of the value
		c.decls.declFun(fieldSel(ssort, name), []string{ssort}, env.sortOf(ft))
	}
	r := Val{T: app(fieldSel(ssort, name), v.T), Ty: ft}
	env.rangeAssume(st, r)
	return r
}

// fieldType instantiates a field's type for generic named structs.
func (env *Env) fieldType(recv types.Type, f *types.Var) types.Type {
	return env.subst(f.Type())
}

func (env *Env) structSortOf(t types.Type) string {
	t = types.Unalias(env.subst(t))
	if p, ok := t.Underlying().(*types.Pointer); ok {
		t = p.Elem()
	}
	return env.sortOf(t)
}

func (env *Env) heapTerm(st *State, key, sort string) string {
	return env.heapTermK(st, key, "Int", sort)
}

// heapTermK: heap map with an arbitrary key sort (Int for references, an interface sort for
// ghost fields of interface values).
func (env *Env) heapTermK(st *State, key, ksort, sort string) string {
	if h, ok := st.heap[key]; ok {
		return h
	}
	env.c.heapKeySorts[key] = ksort
	env.c.heapSorts[key] = sort
	if _, f, ok := cutLast(key, "."); ok && (st.pendingHavoc[strings.TrimPrefix(f, "$")] || st.pendingHavoc["*"]) {
		// first read of a field that a loop on the way here may have written: its value
		// is unrelated to the value at function entry
		name := env.c.fresh("H'"+key, fmt.Sprintf("(Array %s %s)", ksort, sort))
		st.heap[key] = name
		return name
	}
	name := "|H:" + key + "|"
	env.c.decls.declConst(name, fmt.Sprintf("(Array %s %s)", ksort, sort))
	st.heap[key] = name
	// the entry heap does not point to objects allocated by this function
	if k := env.c.ptrField[key]; k != 0 {
		for _, r := range env.c.freshList {
			for _, f := range notPointsTo(name, k, r) {
				st.assume(f)
			}
		}
	}
	if env.c.entry != nil {
		if _, ok := env.c.entry.heap[key]; !ok {
			env.c.entry.heap[key] = name
		}
	}
	if env.old != nil {
		if _, ok := env.old.heap[key]; !ok {
			env.old.heap[key] = name
		}
	}
	return name
}

func (env *Env) evalSelector(x *ast.SelectorExpr, st *State) Val {
	c := env.c
	// qualified identifier?
	if id, ok := x.X.(*ast.Ident); ok {
		if _, isBound := env.bound[id.Name]; !isBound {
			if pn, ok := env.resolveIdent(id).(*types.PkgName); ok {
				o := pn.Imported().Scope().Lookup(x.Sel.Name)
				switch ob := o.(type) {
				case *types.Const:
					if v, ok := constToVal(env, ob.Val(), ob.Type()); ok {
						return v
					}
				case *types.Var:
					name := "|glob:" + pn.Imported().Name() + "." + ob.Name() + "|"
					c.decls.declConst(name, env.sortOf(ob.Type()))
					if isErrorType(ob.Type()) {
						c.declSentinel(name)
					}
					return Val{T: name, Ty: ob.Type()}
				case *types.Func:
					fi := c.e.lookupFunc(ob)
					return Val{T: c.fresh("fn_"+ob.Name(), env.sortOf(ob.Type())), Ty: ob.Type(), Fn: &Closure{Func: fi, Obj: ob, Env: env}}
				case *types.TypeName:
					return Val{Ty: ob.Type(), Bound: true}
				}
				c.unsupported("%s: unresolved %s.%s", c.e.pos(x.Pos()), id.Name, x.Sel.Name)
				return Val{T: c.fresh("unk", "Int"), Ty: tInt}
			}
		}
	}
	// method expression T.m or (*T).m
	if tt := env.asType(x.X); tt != nil {
		obj, _, _ := types.LookupFieldOrMethod(tt, true, env.pkg.types, x.Sel.Name)
		if f, ok := obj.(*types.Func); ok {
			fi := c.e.lookupFunc(f)
			sig := f.Type()
			if !env.contract {
				if t := env.pkg.info.TypeOf(x); t != nil {
					sig = t
				}
			}
			if fi == nil {
				fi = &FuncInfo{Key: f.FullName(), Obj: f}
			}
			return Val{T: c.fresh("mexpr_"+f.Name(), env.sortOf(sig)), Ty: sig, Fn: &Closure{Func: fi, Env: env}}
		}
	}
	v := env.eval(x.X, st)
	if v.Ty == nil {
		c.unsupported("%s: selector on untyped value", c.e.pos(x.Pos()))
		return Val{T: c.fresh("unk", "Int"), Ty: tInt}
	}
	// method value?
	obj, _, _ := types.LookupFieldOrMethod(env.subst(v.Ty), true, env.pkg.types, x.Sel.Name)
	if f, ok := obj.(*types.Func); ok {
		fi := c.e.lookupFunc(f)
		rv := v
		return Val{T: c.fresh("meth_"+f.Name(), env.sortOf(f.Type())), Ty: f.Type(), Fn: &Closure{Func: fi, Env: env, Recv: &rv}}
	}
	return env.selectField(v, x.Sel.Name, st, x.Pos())
}

func (env *Env) evalIndex(x *ast.IndexExpr, st *State) Val {
	c := env.c
	// generic instantiation f[T]
	if !env.contract {
		if tv, ok := env.pkg.info.Types[x.X]; ok {
			if _, isSig := tv.Type.Underlying().(*types.Signature); isSig {
				return env.eval(x.X, st)
			}
		}
	}
	v := env.eval(x.X, st)
	vt := types.Unalias(env.subst(v.Ty))
	if p, ok := vt.Underlying().(*types.Pointer); ok { // pointer to array
		vt = p.Elem()
	}
	switch u := vt.Underlying().(type) {
	case *types.Map:
		k := env.eval(x.Index, st)
		s := env.sortOf(vt)
		has := app("select", app("mh_"+s, v.T), k.T)
		val := app("select", app("mv_"+s, v.T), k.T)
		r := Val{T: ite(has, val, env.zero(u.Elem()).T), Ty: env.subst(u.Elem())}
		env.rangeAssume(st, Val{T: val, Ty: r.Ty})
		return r
	case *types.Slice, *types.Array:
		i := env.eval(x.Index, st)
		s := env.sortOf(vt)
		ln := app("len_"+s, v.T)
		env.rangeAssume(st, v)
		env.safety(st, "index", and(app("<=", "0", i.T), app("<", i.T, ln)), x.Pos())
		r := Val{T: app("select", app("arr_"+s, v.T), i.T), Ty: env.subst(elemOf(vt))}
		env.rangeAssume(st, r)
		return r
	case *types.Basic:
		if u.Info()&types.IsString != 0 {
			i := env.eval(x.Index, st)
			c.strAxioms()
			c.decls.declFun("str_at", []string{"Str", "Int"}, "Int")
			env.safety(st, "index", and(app("<=", "0", i.T), app("<", i.T, app("str_len", v.T))), x.Pos())
			r := Val{T: app("str_at", v.T, i.T), Ty: tByte}
			env.rangeAssume(st, r)
			return r
		}
	}
	c.unsupported("%s: index of %v", c.e.pos(x.Pos()), vt)
	return Val{T: c.fresh("unk", "Int"), Ty: tInt}
}

func (env *Env) sliceLen(v Val) string {
	s := env.sortOf(v.Ty)
	if s == "Str" {
		env.c.strAxioms()
		return app("str_len", v.T)
	}
	return app("len_"+s, v.T)
}

func (env *Env) evalSlice(x *ast.SliceExpr, st *State) Val {
	c := env.c
	v := env.eval(x.X, st)
	vt := types.Unalias(env.subst(v.Ty))
	if p, ok := vt.Underlying().(*types.Pointer); ok {
		vt = p.Elem()
	}
	s := env.sortOf(vt)
	if !strings.HasPrefix(s, "Sl_") {
		c.unsupported("%s: slicing of %v", c.e.pos(x.Pos()), vt)
		return env.havoc(st, "slice", vt)
	}
	env.rangeAssume(st, v)
	ln := app("len_"+s, v.T)
	lo, hi := "0", ln
	if x.Low != nil {
		lo = env.eval(x.Low, st).T
	}
	if x.High != nil {
		hi = env.eval(x.High, st).T
	}
	// bounds: 0 <= lo <= hi <= cap; capacity is not modelled, so hi <= len is required
	// (stricter than Go for s[:n] with len < n <= cap; such code is reported, not assumed)
	env.safety(st, "slice", and(app("<=", "0", lo), app("<=", lo, hi), app("<=", hi, ln)), x.Pos())
	var rt types.Type = vt
	if a, ok := vt.Underlying().(*types.Array); ok {
		rt = types.NewSlice(a.Elem())
	}
	if lo == "0" {
		return Val{T: app("mk_"+s, app("arr_"+s, v.T), hi), Ty: rt}
	}
	es := env.sortOf(elemOf(vt))
	arr := c.fresh("sub", fmt.Sprintf("(Array Int %s)", es))
	j := c.freshBound("j")
	st.assume(fmt.Sprintf("(forall ((%s Int)) (! (= (select %s %s) (select (arr_%s %s) (+ %s %s))) :pattern ((select %s %s))))", j, arr, j, s, v.T, j, lo, arr, j))
	st.assume(fmt.Sprintf("(forall ((%s Int)) (! (= (select %s (- %s %s)) (select (arr_%s %s) %s)) :pattern ((select (arr_%s %s) %s))))", j, arr, j, lo, s, v.T, j, s, v.T, j))
	return Val{T: app("mk_"+s, arr, app("-", hi, lo)), Ty: rt}
}

func (env *Env) evalComposite(x *ast.CompositeLit, st *State, hint types.Type) Val {
	c := env.c
	var t types.Type
	if x.Type != nil {
		t = env.typeOfExpr(x.Type)
	} else if hint != nil {
		t = hint
	} else if !env.contract {
		t = env.pkg.info.TypeOf(x)
	}
	if t != nil {
		if p, ok := types.Unalias(t).Underlying().(*types.Pointer); ok && x.Type == nil {
			t = p.Elem()
		}
	}
	if t == nil {
		c.unsupported("%s: composite literal of unknown type", c.e.pos(x.Pos()))
		return Val{T: c.fresh("unk", "Int"), Ty: tInt}
	}
	t = env.subst(t)
	if isTime(types.Unalias(t)) && len(x.Elts) == 0 {
		return env.zero(t)
	}
	switch u := types.Unalias(t).Underlying().(type) {
	case *types.Struct:
		vals := make([]string, u.NumFields())
		for i := 0; i < u.NumFields(); i++ {
			vals[i] = env.zero(u.Field(i).Type()).T
		}
		for i, el := range x.Elts {
			if kv, ok := el.(*ast.KeyValueExpr); ok {
				name := kv.Key.(*ast.Ident).Name
				for j := 0; j < u.NumFields(); j++ {
					if u.Field(j).Name() == name {
						vals[j] = env.coerce(env.evalHint(kv.Value, st, u.Field(j).Type()), u.Field(j).Type(), st).T
					}
				}
			} else {
				vals[i] = env.coerce(env.evalHint(el, st, u.Field(i).Type()), u.Field(i).Type(), st).T
			}
		}
		if len(vals) == 0 {
			vals = []string{"0"}
		}
		// fields serialised by encoding/json must hold valid UTF-8
		if ts := c.e.typeSpecForSort(env.sortOf(t)); ts != nil && len(ts.UTF8) > 0 && !env.contract {
			for i := 0; i < u.NumFields(); i++ {
				for _, fn := range ts.UTF8 {
					if u.Field(i).Name() == fn && env.sortOf(u.Field(i).Type()) == "Str" {
						c.decls.declFun("str_utf8", []string{"Str"}, "Bool")
						c.trust("encoding/json round-trips a string only if it is valid UTF-8 (precondition checked at the fields marked utf8)")
						env.safety(st, "json-utf8/"+fn, app("str_utf8", vals[i]), x.Pos())
					}
				}
			}
		}
		return Val{T: app("mk_"+env.sortOf(t), vals...), Ty: t}
	case *types.Slice, *types.Array:
		s := env.sortOf(t)
		el := elemOf(t)
		arr := env.zeroArr(s, el)
		n := 0
		for _, e := range x.Elts {
			if kv, ok := e.(*ast.KeyValueExpr); ok {
				e = kv.Value
			}
			v := env.coerce(env.evalHint(e, st, el), el, st)
			arr = app("store", arr, strconv.Itoa(n), v.T)
			n++
		}
		ln := strconv.Itoa(n)
		if a, ok := u.(*types.Array); ok {
			ln = strconv.FormatInt(a.Len(), 10)
		}
		return Val{T: app("mk_"+s, arr, ln), Ty: t}
	case *types.Map:
		m := env.zero(t)
		for _, e := range x.Elts {
			kv := e.(*ast.KeyValueExpr)
			k := env.evalHint(kv.Key, st, u.Key())
			v := env.coerce(env.evalHint(kv.Value, st, u.Elem()), u.Elem(), st)
			m = env.mapStore(m, k, v)
		}
		return m
	}
	c.unsupported("%s: composite literal of %v", c.e.pos(x.Pos()), t)
	return env.havoc(st, "lit", t)
}

func (env *Env) evalHint(e ast.Expr, st *State, hint types.Type) Val {
	if cl, ok := e.(*ast.CompositeLit); ok && cl.Type == nil {
		if p, ok := types.Unalias(hint).Underlying().(*types.Pointer); ok {
			return env.newObjectOf(cl, st, p.Elem())
		}
		return env.evalComposite(cl, st, hint)
	}
	return env.eval(e, st)
}

// coerce converts untyped constants/nil to the target type's sort.
func (env *Env) coerce(v Val, t types.Type, st *State) Val {
	t = env.subst(t)
	if v.Ty == nil {
		return Val{T: v.T, Ty: t}
	}
	if b, ok := v.Ty.(*types.Basic); ok && b.Kind() == types.UntypedNil {
		z := env.zero(t)
		return z
	}
	if b, ok := v.Ty.(*types.Basic); ok && b.Info()&types.IsUntyped != 0 {
		if env.c.bv && isInteger(t) {
			if n, ok := isConstInt(v.T); ok {
				return Val{T: bvLit(n, intBits(t)), Ty: t}
			}
		}
		if env.sortOf(t) == "Real" && !strings.Contains(v.T, ".") {
			if _, ok := isConstInt(v.T); ok {
				return Val{T: v.T + ".0", Ty: t}
			}
		}
		return Val{T: v.T, Ty: t, Fn: v.Fn}
	}
	// concrete value into interface-typed slot: uninterpreted boxing
	st1, st2 := env.sortOf(v.Ty), env.sortOf(t)
	if st1 != st2 {
		if _, isIf := types.Unalias(t).Underlying().(*types.Interface); isIf || strings.HasPrefix(st2, "Tp_") {
			fn := "box_" + mangle(st1) + "_" + mangle(st2)
			env.c.decls.declFun(fn, []string{st1}, st2)
			if st1 == "Int" && isErrorType(t) {
				return Val{T: v.T, Ty: t}
			}
			env.c.decls.axiom(fn, fmt.Sprintf("(forall ((a %s) (b %s)) (! (=> (= (%s a) (%s b)) (= a b)) :pattern ((%s a) (%s b))))", st1, st1, fn, fn, fn, fn))
			if isIf && strings.HasPrefix(st2, "If_") {
				// an interface holding a value is not the nil interface; asserting it back to the
				// boxed representation returns the boxed value (the dynamic-type check of x.(T)
				// is not modelled: a failing assertion panics)
				nilc := env.zero(t).T
				env.c.decls.axiom(fn+"/nonnil", fmt.Sprintf("(forall ((a %s)) (! (not (= (%s a) %s)) :pattern ((%s a))))", st1, fn, nilc, fn))
				ta := "tassert_" + mangle(st2) + "_" + mangle(st1)
				env.c.decls.declFun(ta, []string{st2}, st1)
				env.c.decls.axiom(fn+"/unbox", fmt.Sprintf("(forall ((a %s)) (! (= (%s (%s a)) a) :pattern ((%s a))))", st1, ta, fn, fn))
			}
			return Val{T: app(fn, v.T), Ty: t, Fn: v.Fn}
		}
		if st2 == "Int" && isErrorType(t) {
			// concrete error value: non-nil
			r := env.c.fresh("errval", "Int")
			st.assume(fmt.Sprintf("(> %s 0)", r))
			return Val{T: r, Ty: t}
		}
	}
	return Val{T: v.T, Ty: v.Ty, Fn: v.Fn, Tuple: v.Tuple}
}

// newObject allocates a fresh struct object for &T{...}.
func (env *Env) newObject(cl *ast.CompositeLit, st *State) Val {
	var t types.Type
	if cl.Type != nil {
		t = env.typeOfExpr(cl.Type)
	} else if !env.contract {
		t = env.pkg.info.TypeOf(cl)
	}
	return env.newObjectOf(cl, st, t)
}

func (env *Env) newObjectOf(cl *ast.CompositeLit, st *State, t types.Type) Val {
	c := env.c
	t = env.subst(t)
	sv := env.evalComposite(cl, st, t)
	_, sty, _ := structOf(t)
	if sty == nil {
		c.unsupported("%s: &literal of non-struct", c.e.pos(cl.Pos()))
		return Val{T: c.fresh("obj", "Int"), Ty: types.NewPointer(t)}
	}
	ref := env.allocRef(st, t)
	ssort := env.sortOf(t)
	for i := 0; i < sty.NumFields(); i++ {
		f := sty.Field(i)
		key := ssort + "." + f.Name()
		fs := env.sortOf(f.Type())
		if k := ptrKind(env, f.Type()); k != 0 {
			c.ptrField[key] = k
		}
		h := env.heapTerm(st, key, fs)
		st.heap[key] = app("store", h, ref, app(fieldSel(ssort, f.Name()), sv.T))
	}
	// ghost fields of a new object start at their zero value
	if ts := c.e.typeSpecForSort(ssort); ts != nil {
		for _, g := range sortedKeys(ts.GhostFields) {
			if gt := env.ghostFieldType(types.NewPointer(t), g); gt != nil {
				key := ssort + ".$" + g
				h := env.heapTerm(st, key, env.sortOf(gt))
				st.heap[key] = app("store", h, ref, env.zero(gt).T)
			}
		}
	}
	return Val{T: ref, Ty: types.NewPointer(t)}
}

func (env *Env) allocRef(st *State, t types.Type) string {
	c := env.c
	ref := c.fresh("new_"+mangle(env.sortOf(t)), "Int")
	st.assume(fmt.Sprintf("(> %s 0)", ref))
	c.freshFacts(env, st, ref)
	c.freshList = append(c.freshList, ref)
	c.freshRefs[ref] = true
	return ref
}

// freshFacts: a newly allocated object is different from every parameter, from every
// object allocated before, and nothing in the current heap or in a local slice points to it.
func (c *Ctx) freshFacts(env *Env, st *State, ref string) {
	for _, o := range c.freshList {
		st.assume(fmt.Sprintf("(distinct %s %s)", ref, o))
	}
	for _, o := range c.knownRefs {
		st.assume(fmt.Sprintf("(distinct %s %s)", ref, o))
	}
	for _, key := range sortedKeys(c.ptrField) {
		h, ok := st.heap[key]
		if !ok {
			continue
		}
		for _, f := range notPointsTo(h, c.ptrField[key], ref) {
			st.assume(f)
		}
	}
	for o, v := range st.vars {
		if v.T == "" || v.Ty == nil {
			continue
		}
		switch ptrKind(env, o.Type()) {
		case 1:
			if !c.freshRefs[v.T] && v.T != "0" {
				st.assume(fmt.Sprintf("(distinct %s %s)", ref, v.T))
			}
		case 2:
			s := env.sortOf(v.Ty)
			st.assume(fmt.Sprintf("(forall ((j Int)) (! (not (= (select (arr_%s %s) j) %s)) :pattern ((select (arr_%s %s) j))))", s, v.T, ref, s, v.T))
		case 4:
			// local map whose values are slices of pointers
			s := env.sortOf(v.Ty)
			if mt, ok := types.Unalias(env.subst(v.Ty)).Underlying().(*types.Map); ok && strings.HasPrefix(s, "Mp_") {
				ks := env.sortOf(mt.Key())
				vs := env.sortOf(mt.Elem())
				st.assume(fmt.Sprintf("(forall ((k %s) (j Int)) (! (not (= (select (arr_%s (select (mv_%s %s) k)) j) %s)) :pattern ((select (arr_%s (select (mv_%s %s) k)) j))))", ks, vs, s, v.T, ref, vs, s, v.T))
			}
		case 3:
			// local map with pointer values: no entry holds the new object
			s := env.sortOf(v.Ty)
			if mt, ok := types.Unalias(env.subst(v.Ty)).Underlying().(*types.Map); ok && strings.HasPrefix(s, "Mp_") {
				ks := env.sortOf(mt.Key())
				st.assume(fmt.Sprintf("(forall ((k %s)) (! (=> (select (mh_%s %s) k) (not (= (select (mv_%s %s) k) %s))) :pattern ((select (mv_%s %s) k))))", ks, s, v.T, s, v.T, ref, s, v.T))
			}
		}
	}
}

// ptrKind: 1 = pointer, 2 = slice of pointers, 0 = other.
func ptrKind(env *Env, t types.Type) int {
	t = types.Unalias(env.subst(t))
	if t == nil {
		return 0
	}
	switch u := t.Underlying().(type) {
	case *types.Pointer:
		return 1
	case *types.Slice:
		if _, ok := types.Unalias(env.subst(u.Elem())).Underlying().(*types.Pointer); ok {
			return 2
		}
	case *types.Map:
		if _, ok := types.Unalias(env.subst(u.Elem())).Underlying().(*types.Pointer); ok {
			return 3
		}
		if sl, ok := types.Unalias(env.subst(u.Elem())).Underlying().(*types.Slice); ok {
			if _, ok := types.Unalias(env.subst(sl.Elem())).Underlying().(*types.Pointer); ok {
				return 4
			}
		}
	}
	return 0
}

func notPointsTo(h string, kind int, ref string) []string {
	switch kind {
	case 1:
		return []string{fmt.Sprintf("(forall ((x Int)) (! (not (= (select %s x) %s)) :pattern ((select %s x))))", h, ref, h)}
	case 2:
		return []string{fmt.Sprintf("(forall ((x Int) (j Int)) (! (not (= (select (arr_Sl_Int (select %s x)) j) %s)) :pattern ((select (arr_Sl_Int (select %s x)) j))))", h, ref, h)}
	}
	return nil
}

// derefStruct builds the struct value *p from the heap.
func (env *Env) derefStruct(p Val, st *State) Val {
	c := env.c
	pt, ok := types.Unalias(env.subst(p.Ty)).Underlying().(*types.Pointer)
	if !ok {
		c.unsupported("deref of non-pointer %v", p.Ty)
		return p
	}
	_, sty, _ := structOf(pt.Elem())
	if sty == nil {
		key := "ptr." + env.sortOf(pt.Elem())
		h := env.heapTerm(st, key, env.sortOf(pt.Elem()))
		r := Val{T: app("select", h, p.T), Ty: pt.Elem()}
		env.rangeAssume(st, r)
		return r
	}
	ssort := env.sortOf(pt.Elem())
	var fs []string
	for i := 0; i < sty.NumFields(); i++ {
		f := sty.Field(i)
		h := env.heapTerm(st, ssort+"."+f.Name(), env.sortOf(f.Type()))
		fs = append(fs, app("select", h, p.T))
	}
	if len(fs) == 0 {
		fs = []string{"0"}
	}
	return Val{T: app("mk_"+ssort, fs...), Ty: pt.Elem()}
}

func (env *Env) mapStore(m, k, v Val) Val {
	s := env.sortOf(m.Ty)
	has := app("select", app("mh_"+s, m.T), k.T)
	card := ite(has, app("mc_"+s, m.T), app("+", app("mc_"+s, m.T), "1"))
	return Val{T: app("mk_"+s, app("store", app("mv_"+s, m.T), k.T, v.T), app("store", app("mh_"+s, m.T), k.T, "true"), card), Ty: m.Ty}
}

func (env *Env) mapDelete(m, k Val) Val {
	s := env.sortOf(m.Ty)
	has := app("select", app("mh_"+s, m.T), k.T)
	card := ite(has, app("-", app("mc_"+s, m.T), "1"), app("mc_"+s, m.T))
	return Val{T: app("mk_"+s, app("mv_"+s, m.T), app("store", app("mh_"+s, m.T), k.T, "false"), card), Ty: m.Ty}
}

// ghostFieldType resolves a ghost field declared with `//@ ghostfield name type` on the struct type.
func (env *Env) ghostFieldType(t types.Type, name string) types.Type {
	c := env.c
	ssort := env.structSortOf(t)
	ts := c.e.typeSpecForSort(ssort)
	if ts == nil {
		return nil
	}
	texpr, ok := ts.GhostFields[name]
	if !ok {
		return nil
	}
	return env.ghostTypeOf(ts, name, texpr)
}

func (env *Env) ghostTypeOf(ts *TypeSpec, name, texpr string) types.Type {
	c := env.c
	key := ts.Key + "." + name
	if gt, ok := c.e.ghostTypes[key]; ok {
		return gt
	}
	ex, err := parseExprCached(texpr)
	if err != nil {
		c.unsupported("ghost field %s: bad type %q", key, texpr)
		return nil
	}
	ge := &Env{c: c, pkg: &pkgRef{info: ts.Pkg.TypesInfo, types: ts.Pkg.Types, files: ts.Pkg.Syntax}, contract: true, bound: map[string]Val{}}
	gt := ge.typeOfExpr(ex)
	if gt == nil {
		c.unsupported("ghost field %s: unresolved type %q", key, texpr)
		return nil
	}
	c.e.ghostTypes[key] = gt
	return gt
}


package main

import (
	"fmt"
	"go/ast"
	"go/token"
	"go/types"
	"sort"
	"strings"
)

// Val is a symbolic value: one SMT term plus its Go type.
type Val struct {
	T     string
	Ty    types.Type
	Fn    *Closure // statically known function value
	Tuple []Val
	Bound bool // a type (conversion target), not a value
}

// Closure is a function literal or a named function captured as a value.
type Closure struct {
	Lit   *ast.FuncLit
	Obj   *types.Func // a named function used as a value (library functions have no FuncInfo)
	Func  *FuncInfo
	Env   *Env
	Recv  *Val
	Yield bool // the yield parameter of a generator body under verification
}

// State is one symbolic execution path.
type State struct {
	vars  map[types.Object]Val
	heap  map[string]string
	pc    []string
	seen  map[string]bool // dedupe of read-time range assumptions
	held  map[string]bool // lock tokens held
	ghost map[string]Val
	calls []string // names of the functions called so far on this path
	defers []deferredCall // deferred calls registered on this path (innermost frame last)
	skw   map[string]string // last Skolem function of each witness-mode exists (by source position)
	alias        map[types.Object]sliceAlias // local slices sharing a backing array with a heap field
	pendingHavoc map[string]bool // field names written by an enclosing/preceding loop whose heap map was not touched yet
}

func newState() *State {
	return &State{vars: map[types.Object]Val{}, heap: map[string]string{}, seen: map[string]bool{}, held: map[string]bool{}, ghost: map[string]Val{}}
}

func (s *State) clone() *State {
	n := &State{vars: make(map[types.Object]Val, len(s.vars)), heap: make(map[string]string, len(s.heap)),
		pc: append([]string(nil), s.pc...), seen: make(map[string]bool, len(s.seen)), held: make(map[string]bool, len(s.held)),
		ghost: make(map[string]Val, len(s.ghost)), calls: append([]string(nil), s.calls...), defers: append([]deferredCall(nil), s.defers...)}
	for k, v := range s.vars {
		n.vars[k] = v
	}
	for k, v := range s.heap {
		n.heap[k] = v
	}
	for k, v := range s.seen {
		n.seen[k] = v
	}
	for k, v := range s.held {
		n.held[k] = v
	}
	for k, v := range s.ghost {
		n.ghost[k] = v
	}
	if len(s.skw) > 0 {
		n.skw = make(map[string]string, len(s.skw))
		for k, v := range s.skw {
			n.skw[k] = v
		}
	}
	if len(s.alias) > 0 {
		n.alias = make(map[types.Object]sliceAlias, len(s.alias))
		for k, v := range s.alias {
			n.alias[k] = v
		}
	}
	if len(s.pendingHavoc) > 0 {
		n.pendingHavoc = make(map[string]bool, len(s.pendingHavoc))
		for k, v := range s.pendingHavoc {
			n.pendingHavoc[k] = v
		}
	}
	return n
}

func (s *State) assume(t string) {
	if t == "true" || t == "" {
		return
	}
	s.pc = append(s.pc, t)
}

func (s *State) assumeOnce(t string) {
	if s.seen[t] {
		return
	}
	s.seen[t] = true
	s.assume(t)
}

// Obligation is one proof goal: assumptions => goal.
type Obligation struct {
	Name    string
	Kind    string
	Func    string
	Props   []string
	Assume  []string
	Goal    string
	Decls   *Decls
	Where   string
	Clause  string
	Cover   bool // must be SAT
	Seq     int
	// results
	Status  string // unsat | sat | unknown | timeout | error
	Solver  string
	TimeMS  int64
	Model   string
	Second  string // agreeing second solver (thorough)
	// replay of counterexamples (replay.go)
	RI        *ReplayInfo
	ClauseAST ast.Expr
}

// Decls is the per-function declaration table.
type Decls struct {
	lines []string
	have  map[string]bool
	axioms []string
	axHave map[string]bool
}

func newDecls() *Decls { return &Decls{have: map[string]bool{}, axHave: map[string]bool{}} }

func (d *Decls) declConst(name, sort string) {
	if d.have[name] {
		return
	}
	d.have[name] = true
	d.lines = append(d.lines, fmt.Sprintf("(declare-const %s %s)", name, sort))
}

func (d *Decls) declFun(name string, args []string, ret string) {
	if d.have[name] {
		return
	}
	d.have[name] = true
	d.lines = append(d.lines, fmt.Sprintf("(declare-fun %s (%s) %s)", name, strings.Join(args, " "), ret))
}

func (d *Decls) axiom(key, ax string) {
	if d.axHave[key] {
		return
	}
	d.axHave[key] = true
	d.axioms = append(d.axioms, ax)
}

// Env is the evaluation environment of one function body or contract.
type Env struct {
	callBase    int  // step clauses: called() looks at st.calls[callBase:] only (the calls of this iteration)
	noReadEvent bool // evaluating the operand of & (no "read:<var>" event)
	c        *Ctx
	fn       *FuncInfo
	pkg      *pkgRef
	contract bool               // identifiers are resolved through scopes, not types.Info
	scopePos token.Pos          // position for scope lookups in contract mode
	bound    map[string]Val     // quantifier variables / ghost names
	results  []Val              // result0..n in ensures
	old      *State             // state for old(...)
	tsubst   map[*types.TypeParam]types.Type
	noSafety bool               // no safety obligations while evaluating (contract expressions)
	depth    int
	oldMode  bool
	callerSide bool
	loopPre  *State   // state at the entry of the innermost loop (for atentry(...))
	trigs     *[]string // patterns collected for the innermost enclosing quantifier (trig(...))
	ghostBody bool    // executing the body of a ghost function or a callee inlined from a specification
	qvars    []string // "(name sort)" of enclosing quantifier variables
	qnames   []string
	visitedSet string
}

type pkgRef struct {
	info  *types.Info
	types *types.Package
	files []*ast.File
}

// Ctx is the verification context of one function under contract.
type Ctx struct {
	errIsUsed    bool
	replayInfo   *ReplayInfo
	tolerant     bool
	clauseBroken string
	staleClauses []string // loop clauses that did not apply to the code
	groupOf  map[string]string
	curGroup string
	e      *Engine
	fi     *FuncInfo
	decls  *Decls
	nfresh int
	obls   []*Obligation
	ord    map[string]int
	props  []string
	entry  *State
	results []types.Object
	returned []*State
	notes  []string // unsupported constructs met (function leaves the subset)
	outside string  // non-empty: function is outside the subset
	inlineDepth int
	loopOrd int
	frameRefs map[string][]string // heap key -> entry-state refs allowed to change
	frameAll  map[string]bool
	bv     bool
	curPos token.Pos
	deferred [][]deferredCall
	callOrd map[string]int
	trustedUsed map[string]bool
	oblNames map[string]int
	unroll int
	ctxExtra
}

type deferredCall struct {
	call  *ast.CallExpr
	env   *Env
	frame *frame
}

func (c *Ctx) fresh(prefix, sort string) string {
	c.nfresh++
	name := fmt.Sprintf("|%s!%d|", sanitize(prefix), c.nfresh)
	c.decls.declConst(name, sort)
	return name
}

func sanitize(s string) string {
	return strings.Map(func(r rune) rune {
		if r == '|' || r == '\\' || r == ' ' || r == '\n' {
			return '_'
		}
		return r
	}, s)
}

func (c *Ctx) ordinal(kind string) int {
	c.ord[kind]++
	return c.ord[kind] - 1
}

func (c *Ctx) unsupported(format string, a ...any) {
	msg := fmt.Sprintf(format, a...)
	if c.tolerant {
		// a loop clause that no longer fits the code (the function was restructured): the
		// clause is dropped, the function's other obligations are still generated
		c.clauseBroken = msg
		return
	}
	c.notes = append(c.notes, msg)
	if c.outside == "" {
		c.outside = msg
	}
}

// evalLoopClause evaluates an invariant / exit clause; ok is false when the clause does not
// apply to the current code (it names variables or loop indices that do not exist here).
func (c *Ctx) evalLoopClause(ie *Env, cl *Clause, st *State) (term string, ok bool) {
	c.tolerant, c.clauseBroken = true, ""
	defer func() {
		c.tolerant = false
		if r := recover(); r != nil {
			term, ok = "true", false
			c.staleClauses = append(c.staleClauses, fmt.Sprintf("%s: %v", cl.Text, r))
		}
	}()
	term = ie.evalBool(cl.Expr, st)
	if c.clauseBroken != "" {
		c.staleClauses = append(c.staleClauses, fmt.Sprintf("%s: %s", cl.Text, c.clauseBroken))
		return "true", false
	}
	return term, true
}

func (c *Ctx) trust(s string) {
	c.trustedUsed[s] = true
	c.e.trusted[s] = true
}

func (c *Ctx) addObl(st *State, name, kind, goal, where, clause string, props []string) {
	if goal == "true" {
		// still count it as discharged trivially: keep for naming stability
	}
	if c.oblNames == nil {
		c.oblNames = map[string]int{}
	}
	c.oblNames[name]++
	if n := c.oblNames[name]; n > 1 {
		// the same program point reached from several incoming paths
		name = fmt.Sprintf("%s~%d", name, n)
	}
	o := &Obligation{Name: c.fi.Key + "/" + name, Kind: kind, Func: c.fi.Key, Assume: c.visible(untag(st.pc)), Goal: goal,
		Decls: c.decls, Where: where, Clause: clause, Props: props, RI: c.replayInfo}
	if props == nil {
		o.Props = c.props
	}
	c.obls = append(c.obls, o)
}

// Clause groups keep queries small: an assumption that stems from a clause of group G is
// visible only to obligations of group G; ungrouped assumptions are visible to all, and
// ungrouped obligations see only ungrouped assumptions (dropping assumptions is always sound).
func (c *Ctx) assumeGrouped(st *State, term, group string) {
	st.assume(term)
	if group != "" {
		if c.groupOf == nil {
			c.groupOf = map[string]string{}
		}
		c.groupOf[term] = group
		for _, u := range untag([]string{term}) {
			c.groupOf[u] = group
		}
	}
}

func (c *Ctx) visible(pc []string) []string {
	if len(c.groupOf) == 0 {
		return pc
	}
	out := make([]string, 0, len(pc))
	for _, a := range pc {
		if g := c.groupOf[a]; g != "" && g != c.curGroup {
			continue
		}
		out = append(out, a)
	}
	return out
}

func sortedKeys[V any](m map[string]V) []string {
	ks := make([]string, 0, len(m))
	for k := range m {
		ks = append(ks, k)
	}
	sort.Strings(ks)
	return ks
}

// SMT helpers
func and(xs ...string) string {
	var ys []string
	for _, x := range xs {
		if x == "true" || x == "" {
			continue
		}
		if x == "false" {
			return "false"
		}
		ys = append(ys, x)
	}
	switch len(ys) {
	case 0:
		return "true"
	case 1:
		return ys[0]
	}
	return "(and " + strings.Join(ys, " ") + ")"
}

func or(xs ...string) string {
	var ys []string
	for _, x := range xs {
		if x == "false" || x == "" {
			continue
		}
		if x == "true" {
			return "true"
		}
		ys = append(ys, x)
	}
	switch len(ys) {
	case 0:
		return "false"
	case 1:
		return ys[0]
	}
	return "(or " + strings.Join(ys, " ") + ")"
}

func not(x string) string {
	switch x {
	case "true":
		return "false"
	case "false":
		return "true"
	}
	if strings.HasPrefix(x, "(not ") && strings.HasSuffix(x, ")") && matchBracket(x, 0) == len(x)-1 {
		return x[5 : len(x)-1]
	}
	return "(not " + x + ")"
}

func implies(a, b string) string {
	if a == "true" {
		return b
	}
	if b == "true" || a == "false" {
		return "true"
	}
	return "(=> " + a + " " + b + ")"
}

func ite(c, a, b string) string {
	if c == "true" {
		return a
	}
	if c == "false" {
		return b
	}
	if a == b {
		return a
	}
	return "(ite " + c + " " + a + " " + b + ")"
}

func app(f string, args ...string) string {
	if len(args) == 0 {
		return f
	}
	// projections of constructor terms are simplified syntactically
	if len(args) == 1 && (strings.HasPrefix(f, "f_St_") || strings.HasPrefix(f, "arr_") || strings.HasPrefix(f, "len_") || strings.HasPrefix(f, "mv_") || strings.HasPrefix(f, "mh_") || strings.HasPrefix(f, "mc_")) && strings.HasPrefix(args[0], "(mk_") {
		if r, ok := project(f, args[0]); ok {
			return r
		}
	}
	if f == "select" && len(args) == 2 && strings.HasPrefix(args[0], "(store ") {
		if parts := splitArgs(args[0]); len(parts) == 4 {
			if parts[2] == args[1] {
				return parts[3]
			}
			if isNumeral(parts[2]) && isNumeral(args[1]) {
				return app("select", parts[1], args[1])
			}
			// read over write, pushed eagerly: the result mentions the array before the update, so
			// that quantified facts about the old state find their trigger terms
			if rowEager && strings.Count(args[0], "(store ") <= 3 {
				return ite(eq(args[1], parts[2]), parts[3], app("select", parts[1], args[1]))
			}
		}
	}
	return "(" + f + " " + strings.Join(args, " ") + ")"
}

var rowEager = true

func isNumeral(s string) bool {
	if s == "" {
		return false
	}
	for i := 0; i < len(s); i++ {
		if s[i] < '0' || s[i] > '9' {
			return false
		}
	}
	return true
}

// splitArgs splits "(f a b c)" into [f a b c] at bracket depth 1.
func splitArgs(t string) []string {
	if len(t) < 2 || t[0] != '(' {
		return nil
	}
	var out []string
	depth := 0
	start := 1
	inBar := false
	for i := 1; i < len(t)-1; i++ {
		c := t[i]
		if c == '|' {
			inBar = !inBar
		}
		if inBar {
			continue
		}
		switch c {
		case '(':
			depth++
		case ')':
			depth--
		case ' ':
			if depth == 0 {
				if i > start {
					out = append(out, t[start:i])
				}
				start = i + 1
			}
		}
	}
	if start < len(t)-1 {
		out = append(out, t[start:len(t)-1])
	}
	return out
}

var projIndex = map[string]int{}

func project(sel, term string) (string, bool) {
	parts := splitArgs(term)
	if len(parts) < 2 {
		return "", false
	}
	ctor := parts[0]
	sort := strings.TrimPrefix(ctor, "mk_")
	switch {
	case sel == "arr_"+sort || sel == "mv_"+sort:
		return parts[1], true
	case sel == "len_"+sort && len(parts) == 3:
		return parts[2], true
	case sel == "mh_"+sort && len(parts) == 4:
		return parts[2], true
	case sel == "mc_"+sort && len(parts) == 4:
		return parts[3], true
	case strings.HasPrefix(sel, "f_"+sort+"_"):
		if idx, ok := projIndex[sel]; ok && idx+1 < len(parts) {
			return parts[idx+1], true
		}
	}
	return "", false
}

func eq(a, b string) string {
	if a == b {
		return "true"
	}
	return "(= " + a + " " + b + ")"
}

// untag copies a path condition, removing trigger annotations that ended up outside a quantifier.
func untag(pc []string) []string {
	out := make([]string, 0, len(pc))
	for _, p := range pc {
		if strings.HasPrefix(p, "(! ") {
			if i := strings.LastIndex(p, " :pattern "); i > 0 {
				p = p[3:i]
			}
		}
		out = append(out, p)
	}
	return out
}

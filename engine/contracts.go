package main

import (
	"fmt"
	"go/ast"
	"go/parser"
	"go/token"
	"strconv"
	"strings"

	"golang.org/x/tools/go/packages"
)

type Clause struct {
	Text  string
	Expr  ast.Expr
	Where string // contract file:line
	Props []string // nil = all of the owner's
	Group string // "invariant@G" / "ensures@G" / "exit@G": obligations of group G see only ungrouped and G assumptions
}

type atCall struct {
	Callee string
	Clause *Clause
}

type LoopSpec struct {
	Invs  []*Clause
	Exits []*Clause // "exit <expr>": proved at every way out of the loop, then assumed (a cut)
	Steps []*Clause // "step <expr>": proved at the end of every iteration (back edge, continue); called() = calls of this iteration
	Decr *Clause
}

type Contract struct {
	Key       string
	Props     []string
	Requires  []*Clause
	Ensures   []*Clause
	Assumes   []*Clause
	TrustedProps []string
	modRaw       []scopedMod
	Checks    []*Clause // "checks e": proved at every return like a postcondition (may name the function's own locals), not exported to callers
	Applies   []*Clause // "apply x.ghostLemma(args)": lemma methods (verified ghost code) instantiated at function entry
	Modifies  []string
	HasMod    bool
	PanicsWhen *Clause
	Loops     map[int]*LoopSpec
	Trusted   bool
	Pure      bool     // results are a function of the argument values and of the "reads" terms
	Reads     []*Clause // heap terms a pure function depends on (evaluated at the call)
	ModeBV    bool
	NoSafety  bool
	Holds     []string // locks the caller must hold ("x.mu")
	Orders    [][2]string
	AtCalls   []atCall
	NoWrap    bool // unsigned arithmetic assumed not to overflow (listed)
	Exclusive bool // the receiver is not shared during the call: lock discipline waived (listed)
	Inline    bool // call sites inline the body instead of using the contract
	Where     string
	Ghost     []string // ghost update clauses (raw)
	Unroll    int
}

type Lemma struct {
	Axiom    bool // "//@ axiom name": assumed (listed as trusted), available to every obligation of its package
	ModeBV   bool
	Bridge   bool
	Name     string
	Pkg      *packages.Package
	Props    []string
	Params   []lemmaParam
	Requires []*Clause
	Ensures  []*Clause
	Where    string
	File     *ast.File
}

type lemmaParam struct{ Name, Type string }

type TypeSpec struct {
	Key     string
	Guards  map[string][]string // mutex field -> guarded fields
	LockInv map[string][]*Clause
	Invs    []*Clause
	Where   string
	GhostFields map[string]string // ghost field name -> Go type expression
	UTF8    []string // string fields that must hold valid UTF-8 (serialised by encoding/json)
	Pkg     *packages.Package
}

var clauseKeywords = map[string]bool{"property": true, "requires": true, "ensures": true, "modifies": true,
	"panics": true, "loop": true, "invariant": true, "decreases": true, "exit": true, "step": true, "trusted": true, "pure": true, "reads": true, "mode": true,
	"nosafety": true, "utf8": true, "order": true, "atcall": true, "assumes": true, "apply": true, "checks": true, "ghostfield": true, "holds": true, "nowrap": true, "exclusive": true, "inline": true, "forall": true, "guards": true, "lockinv": true, "ghost": true, "unroll": true}

// rewriteImplies turns `A ==> B` (lowest precedence, right associative, split at
// bracket depth 0) into `(!(A) || (B))`, recursively inside brackets too.
func rewriteImplies(s string) string {
	// first handle nested bracketed regions
	var out strings.Builder
	i := 0
	for i < len(s) {
		c := s[i]
		if c == '(' || c == '{' || c == '[' {
			close := matchBracket(s, i)
			if close < 0 {
				out.WriteString(s[i:])
				break
			}
			out.WriteByte(c)
			out.WriteString(rewriteImplies(s[i+1 : close]))
			out.WriteByte(s[close])
			i = close + 1
			continue
		}
		if c == '"' {
			j := i + 1
			for j < len(s) && s[j] != '"' {
				if s[j] == '\\' {
					j++
				}
				j++
			}
			out.WriteString(s[i:min(j+1, len(s))])
			i = j + 1
			continue
		}
		out.WriteByte(c)
		i++
	}
	t := out.String()
	// split at top-level "==>" ; statements separated by ';' or "return" keep working because
	// we only split inside one expression region: find first top-level ==>
	depth := 0
	for k := 0; k+2 < len(t); k++ {
		switch t[k] {
		case '(', '{', '[':
			depth++
		case ')', '}', ']':
			depth--
		}
		if depth == 0 && t[k] == '=' && t[k+1] == '=' && t[k+2] == '>' {
			lhs, rhs := t[:k], t[k+3:]
			// keep a leading "return " outside
			prefix := ""
			trim := strings.TrimLeft(lhs, " \t")
			if strings.HasPrefix(trim, "return ") {
				prefix = "return "
				lhs = strings.TrimPrefix(trim, "return ")
			}
			return prefix + "(!(" + lhs + ") || (" + rewriteImplies(rhs) + "))"
		}
	}
	return t
}

func matchBracket(s string, i int) int {
	depth := 0
	for j := i; j < len(s); j++ {
		switch s[j] {
		case '(', '{', '[':
			depth++
		case ')', '}', ']':
			depth--
			if depth == 0 {
				return j
			}
		case '"':
			j++
			for j < len(s) && s[j] != '"' {
				if s[j] == '\\' {
					j++
				}
				j++
			}
		}
	}
	return -1
}

type macro struct {
	params []string
	body   string
}

var macros = map[string]map[string]*macro{} // package -> name -> macro

// expandMacros replaces NAME(args) by the macro body with parameters substituted (textual,
// arguments are parenthesised).
func expandMacros(pkg, text string) string {
	ms := macros[pkg]
	for iter := 0; iter < 20; iter++ {
		changed := false
		for name, m := range ms {
			for {
				i := indexWord(text, name+"(")
				if i < 0 {
					break
				}
				open := i + len(name)
				close := matchBracket(text, open)
				if close < 0 {
					break
				}
				args := splitTop(text[open+1 : close])
				body := m.body
				if len(args) == len(m.params) {
					body = substParams(body, m.params, args)
				}
				text = text[:i] + "(" + body + ")" + text[close+1:]
				changed = true
			}
		}
		if !changed {
			break
		}
	}
	return text
}

func isIdentByte(c byte) bool {
	return c == '_' || c >= '0' && c <= '9' || c >= 'a' && c <= 'z' || c >= 'A' && c <= 'Z'
}

func indexWord(s, w string) int {
	from := 0
	for {
		i := strings.Index(s[from:], w)
		if i < 0 {
			return -1
		}
		i += from
		if i == 0 || (!isIdentByte(s[i-1]) && s[i-1] != '.') {
			return i
		}
		from = i + 1
	}
}

func splitTop(s string) []string {
	var out []string
	depth, start := 0, 0
	for i := 0; i < len(s); i++ {
		switch s[i] {
		case '(', '{', '[':
			depth++
		case ')', '}', ']':
			depth--
		case ',':
			if depth == 0 {
				out = append(out, strings.TrimSpace(s[start:i]))
				start = i + 1
			}
		}
	}
	if strings.TrimSpace(s[start:]) != "" {
		out = append(out, strings.TrimSpace(s[start:]))
	}
	return out
}

func substParams(body string, params, args []string) string {
	var b strings.Builder
	i := 0
	for i < len(body) {
		if isIdentByte(body[i]) && (i == 0 || (!isIdentByte(body[i-1]) && body[i-1] != '.')) {
			j := i
			for j < len(body) && isIdentByte(body[j]) {
				j++
			}
			w := body[i:j]
			rep := w
			for k, p := range params {
				if p == w {
					rep = "(" + args[k] + ")"
				}
			}
			b.WriteString(rep)
			i = j
			continue
		}
		b.WriteByte(body[i])
		i++
	}
	return b.String()
}

var curContractPkg string

func (e *Engine) parseClause(text, where string) *Clause {
	text = expandMacros(curContractPkg, text)
	src := rewriteImplies(text)
	ex, err := parser.ParseExprFrom(token.NewFileSet(), "", src, 0)
	if err != nil {
		fatal("contract %s: cannot parse %q: %v", where, text, err)
	}
	return &Clause{Text: strings.TrimSpace(text), Expr: ex, Where: where, Group: curGroupTag, Props: curPropsTag}
}

var curPropsTag []string

// curGroupTag: the "@G" suffix of the clause keyword being parsed
var curGroupTag string

// parseContractFile reads the //@ blocks of a verif-tagged contract file.
func (e *Engine) parseContractFile(p *packages.Package, f *ast.File, fname string) {
	type line struct {
		text string
		pos  token.Pos
	}
	var lines []line
	for _, cg := range f.Comments {
		for _, c := range cg.List {
			if strings.HasPrefix(c.Text, "//@") {
				lines = append(lines, line{strings.TrimPrefix(c.Text, "//@"), c.Pos()})
			}
		}
	}
	// join continuation lines
	var joined []line
	for _, l := range lines {
		t := strings.TrimSpace(l.text)
		if t == "" {
			continue
		}
		first := strings.Fields(t)[0]
		first = strings.TrimSuffix(first, ":")
		first, _, _ = strings.Cut(first, "@")
		first, _, _ = strings.Cut(first, "{")
		if first == "func" || first == "lemma" || first == "axiom" || first == "type" || first == "define" || clauseKeywords[first] {
			joined = append(joined, line{t, l.pos})
		} else if len(joined) > 0 {
			joined[len(joined)-1].text += " " + t
		}
	}
	curContractPkg = p.PkgPath
	if macros[p.PkgPath] == nil {
		macros[p.PkgPath] = map[string]*macro{}
	}
	// macros first, so that they can be used before their definition
	for _, l := range joined {
		if kw, rest, _ := strings.Cut(l.text, " "); kw == "define" {
			head, body, ok := strings.Cut(rest, ":=")
			if !ok {
				fatal("contract %s: define needs NAME(params) := expr", e.pos(l.pos))
			}
			name, ps, _ := strings.Cut(strings.TrimSpace(head), "(")
			ps = strings.TrimSuffix(strings.TrimSpace(ps), ")")
			macros[p.PkgPath][strings.TrimSpace(name)] = &macro{params: splitTop(ps), body: strings.TrimSpace(body)}
		}
	}
	var cur *Contract
	var curLemma *Lemma
	var curType *TypeSpec
	var curLoop *LoopSpec
	for _, l := range joined {
		where := e.pos(l.pos)
		kw, rest, _ := strings.Cut(l.text, " ")
		kw = strings.TrimSuffix(kw, ":")
		kw, curGroupTag, _ = strings.Cut(kw, "@")
		// "ensures{C07,C03} expr": the clause is used (assumed at call sites, proved for the
		// function) only in the checks of the listed properties
		curPropsTag = nil
		if i := strings.Index(kw, "{"); i > 0 && strings.HasSuffix(kw, "}") {
			for _, pp := range strings.Split(kw[i+1:len(kw)-1], ",") {
				if pp = strings.TrimSpace(pp); pp != "" {
					curPropsTag = append(curPropsTag, pp)
				}
			}
			kw = kw[:i]
		}
		rest = strings.TrimSpace(rest)
		switch kw {
		case "define":
			continue
		case "func":
			key := p.Name + "." + rest
			if strings.HasPrefix(rest, "ext:") {
				// contract of a library function: "ext:btree.BTreeG.Min"
				key = strings.TrimPrefix(rest, "ext:")
			}
			cur = &Contract{Key: key, Loops: map[int]*LoopSpec{}, Where: where}
			curLemma, curType, curLoop = nil, nil, nil
			fi := e.funcs[key]
			if fi == nil {
				// remember as dangling: reported as UNDECIDED
				e.funcs[key] = &FuncInfo{Key: key, Pkg: p, Contract: cur}
			} else {
				fi.Contract = cur
			}
		case "lemma", "axiom":
			curLemma = &Lemma{Name: p.Name + "." + rest, Pkg: p, Where: where, File: f, Axiom: kw == "axiom"}
			e.lemmas = append(e.lemmas, curLemma)
			cur, curType, curLoop = nil, nil, nil
		case "type":
			if strings.HasPrefix(rest, "ext:") {
				rest = strings.TrimPrefix(rest, "ext:")
				curType = &TypeSpec{Key: rest, Guards: map[string][]string{}, LockInv: map[string][]*Clause{}, Where: where, GhostFields: map[string]string{}, Pkg: p}
				e.typeSpecs[curType.Key] = curType
				cur, curLemma, curLoop = nil, nil, nil
				continue
			}
			curType = &TypeSpec{Key: p.Name + "." + rest, Guards: map[string][]string{}, LockInv: map[string][]*Clause{}, Where: where, GhostFields: map[string]string{}, Pkg: p}
			e.typeSpecs[curType.Key] = curType
			cur, curLemma, curLoop = nil, nil, nil
		case "property":
			ps := strings.Fields(rest)
			if cur != nil {
				cur.Props = append(cur.Props, ps...)
			} else if curLemma != nil {
				curLemma.Props = append(curLemma.Props, ps...)
			}
		case "requires":
			cl := e.parseClause(rest, where)
			if cur != nil {
				cur.Requires = append(cur.Requires, cl)
			} else if curLemma != nil {
				curLemma.Requires = append(curLemma.Requires, cl)
			}
		case "checks":
			if cur != nil {
				cur.Checks = append(cur.Checks, e.parseClause(rest, where))
			}
		case "apply":
			// apply recv.ghostLemma(args): the contract of a verified ghost method (a lemma proved
			// as code, typically by a loop = induction) is instantiated at function entry: its
			// postcondition is assumed where its precondition holds
			if cur != nil {
				cur.Applies = append(cur.Applies, e.parseClause(rest, where))
			}
		case "assumes":
			// a postcondition callers may rely on but the body does not prove here (listed as trusted)
			if cur != nil {
				cur.Assumes = append(cur.Assumes, e.parseClause(rest, where))
			}
		case "ensures":
			cl := e.parseClause(rest, where)
			if cur != nil {
				cur.Ensures = append(cur.Ensures, cl)
			} else if curLemma != nil {
				curLemma.Ensures = append(curLemma.Ensures, cl)
			}
		case "forall":
			if curLemma != nil {
				for _, part := range strings.Split(rest, ",") {
					fs := strings.Fields(part)
					if len(fs) >= 2 {
						curLemma.Params = append(curLemma.Params, lemmaParam{fs[0], strings.Join(fs[1:], " ")})
					}
				}
			}
		case "modifies":
			// "modifies{C17} a, b": a frame used only in the checks of the listed properties
			if cur != nil {
				sm := scopedMod{Props: curPropsTag}
				for _, m := range strings.Split(rest, ",") {
					if m = strings.TrimSpace(m); m != "" && m != "nothing" {
						sm.Items = append(sm.Items, m)
					}
				}
				cur.modRaw = append(cur.modRaw, sm)
				if len(curPropsTag) == 0 {
					cur.HasMod = true
					cur.Modifies = append(cur.Modifies, sm.Items...)
				}
			}
		case "panics":
			if cur != nil {
				cur.PanicsWhen = e.parseClause(strings.TrimPrefix(rest, "when "), where)
			}
		case "trusted":
			// "trusted{C07,C18}": the body is not verified in the checks of the listed properties
			// only (there the contract is an assumption); in other checks it is verified
			if cur != nil {
				cur.Trusted = true
				cur.TrustedProps = curPropsTag
			}
		case "pure":
			if cur != nil {
				cur.Pure = true
			}
		case "reads":
			if cur != nil {
				for _, r := range splitTop(rest) {
					cur.Reads = append(cur.Reads, e.parseClause(strings.TrimSpace(r), where))
				}
			}
		case "inline":
			if cur != nil {
				cur.Inline = true
			}
		case "nosafety":
			if cur != nil {
				cur.NoSafety = true
			}
		case "order":
			// order X after Y : on every path a call of X is preceded by a call of Y
			if cur != nil {
				fs := strings.Fields(rest)
				if len(fs) == 3 && fs[1] == "after" {
					cur.Orders = append(cur.Orders, [2]string{fs[0], fs[2]})
				} else {
					fatal("contract %s: order X after Y", where)
				}
			}
		case "atcall":
			// atcall Callee: expr over arg0.., self and the caller's variables at the call
			if cur != nil {
				name, ex, ok := strings.Cut(rest, ":")
				if n := strings.TrimSpace(name); ok && (n == "send" || n == "recv" || n == "trysend" || n == "read") {
					// channel operations are named send:<chan> / recv:<chan> / trysend:<chan> (an offer in
					// a select), reads of a local read:<var>
					ch, ex2, ok2 := strings.Cut(ex, ":")
					name, ex, ok = name+":"+strings.TrimSpace(ch), ex2, ok2
				}
				if !ok {
					fatal("contract %s: atcall Callee: expr", where)
				}
				cur.AtCalls = append(cur.AtCalls, atCall{Callee: strings.TrimSpace(name), Clause: e.parseClause(ex, where)})
			}
		case "holds":
			if cur != nil {
				cur.Holds = append(cur.Holds, rest)
			}
		case "nowrap":
			if cur != nil {
				cur.NoWrap = true
			}
		case "exclusive":
			if cur != nil {
				cur.Exclusive = true
			}
		case "unroll":
			if cur != nil {
				cur.Unroll, _ = strconv.Atoi(rest)
			}
		case "mode":
			if cur != nil && rest == "bv" {
				cur.ModeBV = true
			}
			if curLemma != nil && (rest == "bv" || rest == "bv bridge") {
				curLemma.ModeBV = true
				// "mode bv bridge": proved over bit-vectors, and then available as a fact about the
				// uninterpreted integer bit operations (a & b, a | b, a << b) of the same package
				curLemma.Bridge = rest == "bv bridge"
			}
		case "ghost":
			if cur != nil {
				cur.Ghost = append(cur.Ghost, rest)
			}
		case "loop":
			if cur != nil {
				n, err := strconv.Atoi(strings.TrimSuffix(strings.TrimSpace(rest), ":"))
				if err != nil {
					fatal("contract %s: bad loop ordinal %q", where, rest)
				}
				curLoop = &LoopSpec{}
				cur.Loops[n] = curLoop
			}
		case "invariant":
			cl := e.parseClause(rest, where)
			if curLoop != nil {
				curLoop.Invs = append(curLoop.Invs, cl)
			} else if curType != nil {
				curType.Invs = append(curType.Invs, cl)
			}
		case "exit":
			if curLoop != nil {
				curLoop.Exits = append(curLoop.Exits, e.parseClause(rest, where))
			}
		case "step":
			if curLoop != nil {
				curLoop.Steps = append(curLoop.Steps, e.parseClause(rest, where))
			}
		case "decreases":
			if curLoop != nil {
				curLoop.Decr = e.parseClause(rest, where)
			}
		case "utf8":
			// utf8 f, g: string fields serialised by encoding/json; json round-trips a Go
			// string only if it is valid UTF-8, so every value stored there must be
			if curType != nil {
				for _, fn := range strings.Split(rest, ",") {
					if fn = strings.TrimSpace(fn); fn != "" {
						curType.UTF8 = append(curType.UTF8, fn)
					}
				}
			}
		case "ghostfield":
			if curType != nil {
				name, typ, _ := strings.Cut(rest, " ")
				curType.GhostFields[name] = strings.TrimSpace(typ)
			}
		case "guards":
			if curType != nil {
				mu, fs, _ := strings.Cut(rest, ":")
				for _, fn := range strings.Split(fs, ",") {
					if fn = strings.TrimSpace(fn); fn != "" {
						curType.Guards[strings.TrimSpace(mu)] = append(curType.Guards[strings.TrimSpace(mu)], fn)
					}
				}
			}
		case "lockinv":
			if curType != nil {
				mu, ex, _ := strings.Cut(rest, ":")
				curType.LockInv[strings.TrimSpace(mu)] = append(curType.LockInv[strings.TrimSpace(mu)], e.parseClause(ex, where))
			}
		default:
			fatal("contract %s: unknown clause %q", where, kw)
		}
	}
}

func (c *Contract) String() string { return fmt.Sprintf("contract(%s)", c.Key) }

type scopedMod struct {
	Items []string
	Props []string
}

// resolveScopes fixes the frames that are scoped to properties once the property being checked is known.
func (e *Engine) resolveScopes() {
	for _, fi := range e.funcs {
		con := fi.Contract
		if con == nil || len(con.modRaw) == 0 {
			continue
		}
		con.HasMod, con.Modifies = false, nil
		for _, sm := range con.modRaw {
			if len(sm.Props) == 0 || e.curProp == "" || has(sm.Props, e.curProp) {
				con.HasMod = true
				con.Modifies = append(con.Modifies, sm.Items...)
			}
		}
	}
}

package main

import (
	"fmt"
	"go/ast"
	"go/token"
	"go/types"
	"os"
	"strings"
)

type retState struct {
	st   *State
	vals []Val
}

// frame is one function activation (the function under contract, or an inlined callee).
type frame struct {
	fi         *FuncInfo
	env        *Env
	resultObjs []*types.Var
	sig        *types.Signature
	returns    []retState
	loops      []*loopCtx
	defers     []deferredCall
}

func (f *frame) namedResults(st *State) []Val {
	var out []Val
	for _, r := range f.resultObjs {
		if r != nil {
			out = append(out, st.vars[r])
		}
	}
	return out
}

type loopCtx struct {
	label     string
	breaks    []*State
	continues []*State
	isSwitch  bool
}

const maxPaths = 192

func (c *Ctx) frame() *frame { return c.frames[len(c.frames)-1] }

// execBlock runs statements over a set of live states and returns the states that fall through.
func (c *Ctx) execBlock(env *Env, stmts []ast.Stmt, live []*State) []*State {
	for _, s := range stmts {
		if len(live) == 0 {
			return nil
		}
		if len(live) > maxPaths {
			c.unsupported("%s: more than %d live paths", c.e.pos(s.Pos()), maxPaths)
			return nil
		}
		var next []*State
		for _, st := range live {
			next = append(next, c.execStmt(env, s, st)...)
		}
		live = next
	}
	return live
}

func (c *Ctx) execStmt(env *Env, s ast.Stmt, st *State) []*State {
	if c.outside != "" && c.strict {
		return nil
	}
	c.curPos = s.Pos()
	switch x := s.(type) {
	case *ast.ExprStmt:
		env.eval(x.X, st)
		return alive(st)
	case *ast.AssignStmt:
		c.execAssign(env, x, st)
		return alive(st)
	case *ast.IncDecStmt:
		v := env.eval(x.X, st)
		var r Val
		if c.bv {
			op := "bvadd"
			if x.Tok == token.DEC {
				op = "bvsub"
			}
			r = Val{T: app(op, v.T, bvLit(bigOne, intBits(v.Ty))), Ty: v.Ty}
		} else {
			op := "+"
			if x.Tok == token.DEC {
				op = "-"
			}
			r = env.wrap(Val{T: app(op, v.T, "1"), Ty: v.Ty})
		}
		c.assign(env, x.X, r, st)
		return alive(st)
	case *ast.DeclStmt:
		gd, ok := x.Decl.(*ast.GenDecl)
		if !ok || gd.Tok != token.VAR {
			return alive(st)
		}
		for _, sp := range gd.Specs {
			vs := sp.(*ast.ValueSpec)
			for i, n := range vs.Names {
				o := env.pkg.info.Defs[n]
				if o == nil {
					continue
				}
				if i < len(vs.Values) {
					st.vars[o] = env.coerce(env.evalHint(vs.Values[i], st, o.Type()), o.Type(), st)
				} else {
					st.vars[o] = env.zero(o.Type())
				}
			}
		}
		return alive(st)
	case *ast.BlockStmt:
		return c.execBlock(env, x.List, []*State{st})
	case *ast.IfStmt:
		return c.execIf(env, x, st)
	case *ast.ForStmt:
		return c.execFor(env, x, st, "")
	case *ast.RangeStmt:
		return c.execRange(env, x, st, "")
	case *ast.LabeledStmt:
		switch inner := x.Stmt.(type) {
		case *ast.ForStmt:
			return c.execFor(env, inner, st, x.Label.Name)
		case *ast.RangeStmt:
			return c.execRange(env, inner, st, x.Label.Name)
		}
		return c.execStmt(env, x.Stmt, st)
	case *ast.SwitchStmt:
		return c.execSwitch(env, x, st)
	case *ast.TypeSwitchStmt:
		return c.execTypeSwitch(env, x, st)
	case *ast.ReturnStmt:
		c.execReturn(env, x, st)
		return nil
	case *ast.BranchStmt:
		fr := c.frame()
		switch x.Tok {
		case token.BREAK:
			for i := len(fr.loops) - 1; i >= 0; i-- {
				l := fr.loops[i]
				if x.Label == nil || l.label == x.Label.Name {
					l.breaks = append(l.breaks, st)
					return nil
				}
			}
		case token.CONTINUE:
			for i := len(fr.loops) - 1; i >= 0; i-- {
				l := fr.loops[i]
				if l.isSwitch {
					continue
				}
				if x.Label == nil || l.label == x.Label.Name {
					l.continues = append(l.continues, st)
					return nil
				}
			}
		}
		c.unsupported("%s: branch %s", c.e.pos(x.Pos()), x.Tok)
		return nil
	case *ast.DeferStmt:
		// deferred calls are path-sensitive: only those registered on this path run at its return
		st.defers = append(st.defers, deferredCall{call: x.Call, env: env, frame: c.frame()})
		return alive(st)
	case *ast.GoStmt:
		c.trust("go statements: spawned goroutine bodies are not part of the spawner's contract")
		// the spawn itself is an event "go" of the call log, so that a contract can confine a
		// function to its caller's goroutine (`atcall go: false`: this function starts none)
		if !env.contract {
			env.callHooksNamed("go", nil, nil, st, &ast.CallExpr{Fun: &ast.Ident{NamePos: x.Pos(), Name: "go"}, Lparen: x.Pos(), Rparen: x.End()})
		}
		return alive(st)
	case *ast.EmptyStmt:
		return alive(st)
	case *ast.SendStmt:
		v := env.eval(x.Value, st)
		c.trust("channel sends are not modelled")
		c.chanOp(env, "send", x.Chan, []Val{v}, st, x.Pos())
		return alive(st)
	case *ast.SelectStmt:
		return c.execSelect(env, x, st)
	}
	c.unsupported("%s: unsupported statement %T", c.e.pos(s.Pos()), s)
	return nil
}

func alive(st *State) []*State {
	if n := len(st.pc); n > 0 && st.pc[n-1] == "false" {
		return nil
	}
	return []*State{st}
}

func (c *Ctx) execAssign(env *Env, x *ast.AssignStmt, st *State) {
	// op-assign
	if x.Tok != token.ASSIGN && x.Tok != token.DEFINE {
		op := map[token.Token]token.Token{token.ADD_ASSIGN: token.ADD, token.SUB_ASSIGN: token.SUB, token.MUL_ASSIGN: token.MUL,
			token.QUO_ASSIGN: token.QUO, token.REM_ASSIGN: token.REM, token.AND_ASSIGN: token.AND, token.OR_ASSIGN: token.OR,
			token.XOR_ASSIGN: token.XOR, token.SHL_ASSIGN: token.SHL, token.SHR_ASSIGN: token.SHR, token.AND_NOT_ASSIGN: token.AND_NOT}[x.Tok]
		be := &ast.BinaryExpr{X: x.Lhs[0], Op: op, Y: x.Rhs[0], OpPos: x.TokPos}
		v := env.evalBinarySynth(be, st, env.lhsType(x.Lhs[0], st))
		c.assign(env, x.Lhs[0], v, st)
		return
	}
	var vals []Val
	if len(x.Rhs) == 1 && len(x.Lhs) > 1 {
		// tuple: call, map lookup, type assertion, channel receive
		switch r := unparen(x.Rhs[0]).(type) {
		case *ast.IndexExpr:
			m := env.eval(r.X, st)
			if mt, ok := types.Unalias(env.subst(m.Ty)).Underlying().(*types.Map); ok {
				k := env.eval(r.Index, st)
				s := env.sortOf(m.Ty)
				has := app("select", app("mh_"+s, m.T), k.T)
				val := app("select", app("mv_"+s, m.T), k.T)
				env.rangeAssume(st, Val{T: val, Ty: mt.Elem()})
				vals = []Val{{T: ite(has, val, env.zero(mt.Elem()).T), Ty: env.subst(mt.Elem())}, boolVal(has)}
			}
		case *ast.TypeAssertExpr:
			v := env.eval(r, st)
			okT := c.fresh("tassert_ok", "Bool")
			if r.Type != nil {
				// v, ok := x.(T): ok is the dynamic-type test used by type switches
				if tt := env.typeOfExpr(r.Type); tt != nil {
					if _, isIf := types.Unalias(tt).Underlying().(*types.Interface); !isIf {
						sv := env.eval(r.X, st)
						tagFn := "dyntype_" + mangle(env.sortOf(sv.Ty))
						c.decls.declFun(tagFn, []string{env.sortOf(sv.Ty)}, "Int")
						okT = eq(app(tagFn, sv.T), fmt.Sprint(c.typeTag(tt)))
						v = Val{T: ite(okT, v.T, env.zero(tt).T), Ty: v.Ty}
					}
				}
			}
			vals = []Val{v, boolVal(okT)}
		case *ast.UnaryExpr:
			if r.Op == token.ARROW {
				v := env.eval(r, st)
				vals = []Val{v, boolVal(c.fresh("recv_ok", "Bool"))}
			}
		}
		if vals == nil {
			v := env.eval(x.Rhs[0], st)
			vals = v.Tuple
			if len(vals) != len(x.Lhs) {
				c.unsupported("%s: tuple assignment arity (%d vs %d)", c.e.pos(x.Pos()), len(vals), len(x.Lhs))
				for range x.Lhs {
					vals = append(vals, Val{T: c.fresh("unk", "Int"), Ty: tInt})
				}
			}
		}
	} else {
		for i, r := range x.Rhs {
			vals = append(vals, env.evalHint(r, st, env.lhsType(x.Lhs[i], st)))
		}
	}
	for i, l := range x.Lhs {
		if i < len(vals) {
			c.assign(env, l, vals[i], st)
		}
	}
	// v := x.f with f a slice field of a heap object: v and x.f share their backing array until
	// one of them is reassigned - an element write through v is a write to the object (below)
	if len(x.Lhs) == len(x.Rhs) {
		for i, l := range x.Lhs {
			id, ok := unparen(l).(*ast.Ident)
			if !ok || id.Name == "_" {
				continue
			}
			o := env.resolveIdent(id)
			if o == nil {
				continue
			}
			sel, ok := unparen(x.Rhs[i]).(*ast.SelectorExpr)
			if !ok || env.contract {
				continue
			}
			bt := env.pkg.info.TypeOf(sel.X)
			ft := env.pkg.info.TypeOf(sel)
			if bt == nil || ft == nil {
				continue
			}
			if _, isSl := types.Unalias(env.subst(ft)).Underlying().(*types.Slice); !isSl {
				continue
			}
			_, sty, isPtr := structOf(env.subst(bt))
			if sty == nil || !isPtr {
				continue
			}
			ne := *env
			ne.noSafety = true
			base := ne.eval(sel.X, st)
			key := env.structSortOf(base.Ty) + "." + sel.Sel.Name
			if st.alias == nil {
				st.alias = map[types.Object]sliceAlias{}
			}
			st.alias[o] = sliceAlias{key: key, ref: base.T, val: st.vars[o].T, elemSort: env.sortOf(ft)}
		}
	}
}

// sliceAlias: a local slice variable that still shares its backing array with a heap field.
type sliceAlias struct{ key, ref, val, elemSort string }

func (env *Env) lhsType(l ast.Expr, st *State) types.Type {
	if id, ok := l.(*ast.Ident); ok && id.Name == "_" {
		return nil
	}
	if t := env.pkg.info.TypeOf(l); t != nil {
		return env.subst(t)
	}
	if id, ok := l.(*ast.Ident); ok {
		if o := env.pkg.info.Defs[id]; o != nil {
			return env.subst(o.Type())
		}
	}
	return nil
}

// evalBinarySynth evaluates a synthesized binary expression (x op= y).
func (env *Env) evalBinarySynth(be *ast.BinaryExpr, st *State, lt types.Type) Val {
	if be.Op == token.AND_NOT {
		env.c.unsupported("&^= not supported")
	}
	v := env.evalBinary(be, st)
	if lt != nil && v.Ty != nil {
		if b, ok := v.Ty.(*types.Basic); ok && b.Info()&types.IsUntyped != 0 {
			v.Ty = lt
		}
	}
	return v
}

// assign stores v into the location denoted by l.
func (c *Ctx) assign(env *Env, l ast.Expr, v Val, st *State) {
	switch x := unparen(l).(type) {
	case *ast.Ident:
		if x.Name == "_" {
			return
		}
		o := env.resolveIdent(x)
		if o == nil {
			c.unsupported("%s: assignment to unresolved %s", c.e.pos(x.Pos()), x.Name)
			return
		}
		if vo, ok := o.(*types.Var); ok && vo.Parent() == vo.Pkg().Scope() {
			c.unsupported("%s: assignment to package variable %s", c.e.pos(x.Pos()), x.Name)
			return
		}
		st.vars[o] = env.coerce(v, o.Type(), st)
	case *ast.SelectorExpr:
		base := env.eval(x.X, st)
		_, sty, isPtr := structOf(env.subst(base.Ty))
		if sty == nil {
			c.unsupported("%s: field assignment on %v", c.e.pos(x.Pos()), base.Ty)
			return
		}
		var ft types.Type
		for i := 0; i < sty.NumFields(); i++ {
			if sty.Field(i).Name() == x.Sel.Name {
				ft = sty.Field(i).Type()
			}
		}
		if ft == nil {
			c.unsupported("%s: assignment to promoted field %s", c.e.pos(x.Pos()), x.Sel.Name)
			return
		}
		v = env.coerce(v, ft, st)
		ssort := env.structSortOf(base.Ty)
		if isPtr {
			key := ssort + "." + x.Sel.Name
			h := env.heapTerm(st, key, env.sortOf(ft))
			env.lockDiscipline(st, base, ssort, x.Sel.Name, x.Pos())
			c.frameWrite(env, st, key, base.T, x.Pos())
			st.heap[key] = app("store", h, base.T, v.T)
			return
		}
		c.assign(env, x.X, env.updateField(base, ssort, sty, x.Sel.Name, v), st)
	case *ast.IndexExpr:
		base := env.eval(x.X, st)
		bt := types.Unalias(env.subst(base.Ty))
		switch u := bt.Underlying().(type) {
		case *types.Map:
			k := env.coerce(env.eval(x.Index, st), u.Key(), st)
			c.assign(env, x.X, env.mapStore(base, k, env.coerce(v, u.Elem(), st)), st)
		case *types.Slice, *types.Array:
			i := env.eval(x.Index, st)
			s := env.sortOf(bt)
			env.rangeAssume(st, base)
			env.safety(st, "index", and(app("<=", "0", i.T), app("<", i.T, app("len_"+s, base.T))), x.Pos())
			nv := Val{T: app("mk_"+s, app("store", app("arr_"+s, base.T), i.T, env.coerce(v, elemOf(bt), st).T), app("len_"+s, base.T)), Ty: base.Ty}
			var al *sliceAlias
			var alObj types.Object
			if id, ok := unparen(x.X).(*ast.Ident); ok && !env.contract {
				if o := env.resolveIdent(id); o != nil {
					if a, ok := st.alias[o]; ok && a.val == base.T {
						// the variable still holds the value it was given from the heap field, and
						// the field still holds it too: the write goes to the shared array
						if h, ok := st.heap[a.key]; ok && app("select", h, a.ref) == a.val {
							al, alObj = &a, o
						}
					}
				}
			}
			c.assign(env, x.X, nv, st)
			if al != nil {
				h := st.heap[al.key]
				c.writes[al.key] = true
				st.heap[al.key] = app("store", h, al.ref, nv.T)
				st.alias[alObj] = sliceAlias{key: al.key, ref: al.ref, val: nv.T, elemSort: al.elemSort}
				c.trust("an element write through a local slice that was assigned from a heap field (v := x.f; v[i] = e) is a write to that field: the two share their backing array")
			}
		default:
			c.unsupported("%s: index assignment on %v", c.e.pos(x.Pos()), bt)
		}
	case *ast.StarExpr:
		p := env.eval(x.X, st)
		pt, _ := types.Unalias(env.subst(p.Ty)).Underlying().(*types.Pointer)
		if pt == nil {
			c.unsupported("%s: store through non-pointer", c.e.pos(x.Pos()))
			return
		}
		_, sty, _ := structOf(pt.Elem())
		if sty == nil {
			key := "ptr." + env.sortOf(pt.Elem())
			h := env.heapTerm(st, key, env.sortOf(pt.Elem()))
			st.heap[key] = app("store", h, p.T, env.coerce(v, pt.Elem(), st).T)
			return
		}
		ssort := env.sortOf(pt.Elem())
		for i := 0; i < sty.NumFields(); i++ {
			f := sty.Field(i)
			key := ssort + "." + f.Name()
			h := env.heapTerm(st, key, env.sortOf(f.Type()))
			st.heap[key] = app("store", h, p.T, app(fieldSel(ssort, f.Name()), v.T))
		}
	default:
		c.unsupported("%s: assignment target %T", c.e.pos(l.Pos()), l)
	}
}

func (env *Env) updateField(base Val, ssort string, sty *types.Struct, name string, v Val) Val {
	var fs []string
	for i := 0; i < sty.NumFields(); i++ {
		f := sty.Field(i)
		if f.Name() == name {
			fs = append(fs, v.T)
		} else {
			fs = append(fs, app(fieldSel(ssort, f.Name()), base.T))
		}
	}
	return Val{T: app("mk_"+ssort, fs...), Ty: base.Ty}
}

func (c *Ctx) execIf(env *Env, x *ast.IfStmt, st *State) []*State {
	if x.Init != nil {
		outs := c.execStmt(env, x.Init, st)
		if len(outs) == 0 {
			return nil
		}
		st = outs[0]
	}
	cond := env.evalBool(x.Cond, st)
	var out []*State
	if cond != "false" {
		t := st.clone()
		t.assume(cond)
		out = append(out, c.execBlock(env, x.Body.List, []*State{t})...)
	}
	if nc := not(cond); nc != "false" {
		f := st
		f.assume(nc)
		if x.Else != nil {
			out = append(out, c.execStmt(env, x.Else, f)...)
		} else {
			out = append(out, f)
		}
	}
	return out
}

func (c *Ctx) execSwitch(env *Env, x *ast.SwitchStmt, st *State) []*State {
	if x.Init != nil {
		outs := c.execStmt(env, x.Init, st)
		if len(outs) == 0 {
			return nil
		}
		st = outs[0]
	}
	var tag *Val
	if x.Tag != nil {
		v := env.eval(x.Tag, st)
		tag = &v
	}
	fr := c.frame()
	lc := &loopCtx{isSwitch: true}
	fr.loops = append(fr.loops, lc)
	var out []*State
	rest := st // state in which no earlier case matched
	var defaultClause *ast.CaseClause
	clauses := x.Body.List
	var fall []*State
	for ci, cl := range clauses {
		cc := cl.(*ast.CaseClause)
		if cc.List == nil {
			defaultClause = cc
			if len(fall) > 0 {
				c.unsupported("fallthrough into default")
			}
			continue
		}
		var conds []string
		for _, e := range cc.List {
			if tag != nil {
				v := env.eval(e, rest)
				conds = append(conds, env.equal(*tag, v, rest))
			} else {
				conds = append(conds, env.evalBool(e, rest))
			}
		}
		cond := or(conds...)
		t := rest.clone()
		t.assume(cond)
		rest.assume(not(cond))
		entry := append([]*State{t}, fall...)
		fall = nil
		body := cc.Body
		hasFall := false
		if n := len(body); n > 0 {
			if b, ok := body[n-1].(*ast.BranchStmt); ok && b.Tok == token.FALLTHROUGH {
				hasFall = true
				body = body[:n-1]
			}
		}
		res := c.execBlock(env, body, entry)
		if hasFall && ci+1 < len(clauses) {
			fall = res
		} else {
			out = append(out, res...)
		}
	}
	if defaultClause != nil {
		out = append(out, c.execBlock(env, defaultClause.Body, []*State{rest})...)
	} else {
		out = append(out, rest)
	}
	fr.loops = fr.loops[:len(fr.loops)-1]
	out = append(out, lc.breaks...)
	return out
}

func (c *Ctx) execTypeSwitch(env *Env, x *ast.TypeSwitchStmt, st *State) []*State {
	// each clause is a nondeterministic branch; the bound variable is an
	// uninterpreted projection of the interface value
	var subject ast.Expr
	var bindName *ast.Ident
	switch a := x.Assign.(type) {
	case *ast.AssignStmt:
		bindName = a.Lhs[0].(*ast.Ident)
		subject = a.Rhs[0].(*ast.TypeAssertExpr).X
	case *ast.ExprStmt:
		subject = a.X.(*ast.TypeAssertExpr).X
	}
	sv := env.eval(subject, st)
	c.trust("type switches: the dynamic type is an uninterpreted tag of the interface value")
	tagFn := "dyntype_" + mangle(env.sortOf(sv.Ty))
	c.decls.declFun(tagFn, []string{env.sortOf(sv.Ty)}, "Int")
	var out []*State
	rest := st
	_ = bindName
	var def *ast.CaseClause
	for _, cl := range x.Body.List {
		cc := cl.(*ast.CaseClause)
		if cc.List == nil {
			def = cc
			continue
		}
		var conds []string
		var tt types.Type
		for _, te := range cc.List {
			tt = env.typeOfExpr(te)
			id := c.typeTag(tt)
			conds = append(conds, eq(app(tagFn, sv.T), fmt.Sprint(id)))
		}
		cond := or(conds...)
		t := rest.clone()
		t.assume(cond)
		rest.assume(not(cond))
		if o := env.pkg.info.Implicits[cc]; o != nil {
			if len(cc.List) == 1 && tt != nil {
				fn := "tassert_" + mangle(env.sortOf(sv.Ty)) + "_" + mangle(env.sortOf(tt))
				c.decls.declFun(fn, []string{env.sortOf(sv.Ty)}, env.sortOf(tt))
				t.vars[o] = Val{T: app(fn, sv.T), Ty: tt}
			} else {
				t.vars[o] = sv
			}
		}
		out = append(out, c.execBlock(env, cc.Body, []*State{t})...)
	}
	if def != nil {
		if o := env.pkg.info.Implicits[def]; o != nil {
			rest.vars[o] = sv
		}
		out = append(out, c.execBlock(env, def.Body, []*State{rest})...)
	} else {
		out = append(out, rest)
	}
	return out
}

func (c *Ctx) typeTag(t types.Type) int {
	s := "nil"
	if t != nil {
		s = types.TypeString(t, nil)
	}
	if id, ok := c.typeTags[s]; ok {
		return id
	}
	c.typeTags[s] = len(c.typeTags) + 1
	return c.typeTags[s]
}

// modifiedIn collects variables assigned and heap fields written in a loop body (syntactically).
func (c *Ctx) modifiedIn(env *Env, nodes []ast.Node) (vars map[types.Object]bool, heapAll bool, fields map[string]bool) {
	vars = map[types.Object]bool{}
	fields = map[string]bool{}
	if c.modDepth == 0 {
		c.loopNodes = nodes
	}
	c.lastDirect = map[string][]types.Object{}
	c.lastIndirect = map[string]bool{}
	c.lastExprs = map[string][]ast.Expr{}
	var markLhs func(e ast.Expr)
	markLhs = func(e ast.Expr) {
		switch x := unparen(e).(type) {
		case *ast.Ident:
			if o := env.resolveIdent(x); o != nil {
				vars[o] = true
			}
		case *ast.SelectorExpr:
			// x.f = ... : if x is a pointer, heap field f; else the variable at the root
			if t := env.pkg.info.TypeOf(x.X); t != nil {
				if _, _, isPtr := structOf(env.subst(t)); isPtr {
					if id, ok := unparen(x.X).(*ast.Ident); ok && c.modDepth == 0 && c.loopLocalFresh(env, id) {
						return // an object allocated in this iteration: no object that existed before changes
					}
					fields[x.Sel.Name] = true
					// remember the written object when it is a plain variable
					if id, ok := unparen(x.X).(*ast.Ident); ok && c.modDepth == 0 {
						if o := env.resolveIdent(id); o != nil {
							c.lastDirect[x.Sel.Name] = append(c.lastDirect[x.Sel.Name], o)
							return
						}
					}
					c.lastIndirect[x.Sel.Name] = true
					return
				}
			}
			markLhs(x.X)
		case *ast.IndexExpr:
			markLhs(x.X)
		case *ast.StarExpr:
			// *p = v: a pointer to a non-struct value lives in the heap "ptr.<sort>" only
			if t := env.pkg.info.TypeOf(x.X); t != nil {
				if pt, ok := types.Unalias(env.subst(t)).Underlying().(*types.Pointer); ok {
					if _, isSt := types.Unalias(pt.Elem()).Underlying().(*types.Struct); !isSt {
						f := env.sortOf(pt.Elem())
						fields[f] = true
						if id, ok := unparen(x.X).(*ast.Ident); ok && c.modDepth == 0 {
							if o := env.resolveIdent(id); o != nil {
								c.lastDirect[f] = append(c.lastDirect[f], o)
								return
							}
						}
						c.lastIndirect[f] = true
						return
					}
				}
			}
			heapAll = true
		}
	}
	for _, n := range nodes {
		if n == nil {
			continue
		}
		ast.Inspect(n, func(nd ast.Node) bool {
			switch x := nd.(type) {
			case *ast.AssignStmt:
				for _, l := range x.Lhs {
					markLhs(l)
				}
			case *ast.IncDecStmt:
				markLhs(x.X)
			case *ast.RangeStmt:
				if x.Key != nil {
					markLhs(x.Key)
				}
				if x.Value != nil {
					markLhs(x.Value)
				}
			case *ast.CallExpr:
				// calls may modify the heap: by contract frame if known, else nothing (listed)
				heapAll = heapAll || c.callMayWriteHeap(env, x, fields)
			}
			return true
		})
	}
	return
}

func (c *Ctx) callMayWriteHeap(env *Env, x *ast.CallExpr, fields map[string]bool) bool {
	var fobj *types.Func
	switch f := unparen(x.Fun).(type) {
	case *ast.Ident:
		fobj, _ = env.pkg.info.Uses[f].(*types.Func)
	case *ast.SelectorExpr:
		fobj, _ = env.pkg.info.Uses[f.Sel].(*types.Func)
	}
	if fobj == nil {
		return false
	}
	// natively specified library calls that write ghost state
	full := fobj.FullName()
	if o := fobj.Origin(); o != nil {
		full = o.FullName()
	}
	if _, ok := stdSpecs[full]; ok {
		mark := func(fs ...string) {
			for _, f := range fs {
				fields[f] = true
				c.lastIndirect[f] = true
			}
		}
		switch {
		case full == "io.ReadFull" || full == "(io.Reader).Read" || full == "io.CopyN" || full == "io.ReadAll" ||
			full == "encoding/binary.Read" || full == "(*bytes.Reader).Seek":
			mark("pos")
		case strings.HasPrefix(full, "(*sync/atomic."):
			if sel, ok := unparen(x.Fun).(*ast.SelectorExpr); ok {
				if fsel, ok := unparen(sel.X).(*ast.SelectorExpr); ok {
					mark(fsel.Sel.Name+"Flag", fsel.Sel.Name+"Val")
				}
			}
		case full == "close":
		}
		return false
	}
	var recvTy types.Type
	if sel, ok := unparen(x.Fun).(*ast.SelectorExpr); ok {
		if _, isPkg := env.pkg.info.Uses[identOf(sel.X)].(*types.PkgName); !isPkg {
			recvTy = env.pkg.info.TypeOf(sel.X)
		}
	}
	fi := env.resolveCallee(fobj, recvTy)
	if os.Getenv("GOVC_DEBUG") != "" {
		fmt.Fprintf(os.Stderr, "mayWrite %s recvTy=%v fi=%v\n", full, recvTy, fi != nil)
	}
	if fi == nil {
		return false
	}
	if fi.Contract != nil && !fi.Contract.Inline {
		recvName := ""
		if rv, _, _ := paramObjs(fi); rv != nil {
			recvName = rv.Name()
		}
		var recvExpr ast.Expr
		if sel, ok := unparen(x.Fun).(*ast.SelectorExpr); ok {
			recvExpr = sel.X
		}
		for _, m := range fi.Contract.Modifies {
			base, f, _ := cutLast(m, ".")
			if base == recvName && recvName != "" && recvExpr != nil && c.modDepth == 0 {
				if id, ok := unparen(recvExpr).(*ast.Ident); ok && c.loopLocalFresh(env, id) {
					continue // receiver allocated in this iteration
				}
			}
			if f == "*" {
				// "x.*" / "Type.*": every field of that struct type
				fns := c.starFields(fi, base)
				if fns == nil {
					return true
				}
				for _, fn := range fns {
					fields[fn] = true
					c.lastIndirect[fn] = true
				}
				continue
			}
			fields[f] = true
			// "recv.f" written by a method called on a stable path expression: remember the path
			if base == recvName && recvName != "" && recvExpr != nil && c.modDepth == 0 && stablePath(recvExpr) {
				c.lastExprs[f] = append(c.lastExprs[f], recvExpr)
				continue
			}
			c.lastIndirect[f] = true
		}
		return false
	}
	if fi.Decl != nil && fi.Decl.Body != nil && !fi.Ghost {
		// inlined or unspecified callee: collect its field writes syntactically
		sub := &Env{c: c, fn: fi, pkg: c.pkgRefOf(fi)}
		if c.modDepth > 3 {
			return true
		}
		c.modDepth++
		sd, si, se := c.lastDirect, c.lastIndirect, c.lastExprs
		_, all, fs := c.modifiedIn(sub, []ast.Node{fi.Decl.Body})
		c.modDepth--
		c.lastDirect, c.lastIndirect, c.lastExprs = sd, si, se
		for f := range fs {
			fields[f] = true
			c.lastIndirect[f] = true
		}
		return all
	}
	return false
}

// starFields resolves the struct behind "base.*" of a callee's modifies clause to its field names.
func (c *Ctx) starFields(fi *FuncInfo, base string) []string {
	ce := &Env{c: c, fn: fi, pkg: c.pkgRefOf(fi), bound: map[string]Val{}}
	var tt types.Type
	rv, ps, _ := paramObjs(fi)
	for _, v := range append([]*types.Var{rv}, ps...) {
		if v != nil && v.Name() == base {
			tt = v.Type()
		}
	}
	if tt == nil {
		tt = ce.frameType(base)
	}
	if tt == nil {
		return nil
	}
	_, sty, _ := structOf(tt)
	if sty == nil {
		return nil
	}
	return append([]string{}, c.structFields(ce.structSortOf(tt), "*")...)
}

// havocLoopTargets forgets everything the loop may change.
func (c *Ctx) havocLoopTargets(env *Env, st *State, nodes []ast.Node) {
	vars, all, fields := c.modifiedIn(env, nodes)
	for o := range vars {
		if v, ok := st.vars[o]; ok && v.T != "" {
			st.vars[o] = env.havoc(st, o.Name(), v.Ty)
		}
	}
	// cells written through *p with p a plain pointer variable: make sure the cell heap exists now,
	// so that only the cell of p is forgotten (an untouched heap would be forgotten as a whole later)
	for f := range fields {
		if !c.lastIndirect[f] && len(c.lastDirect[f]) > 0 {
			for _, o := range c.lastDirect[f] {
				if v, ok := st.vars[o]; ok && v.Ty != nil {
					if pt, ok := types.Unalias(env.subst(v.Ty)).Underlying().(*types.Pointer); ok && env.sortOf(pt.Elem()) == f {
						if _, isSt := types.Unalias(pt.Elem()).Underlying().(*types.Struct); !isSt {
							env.heapTerm(st, "ptr."+f, f)
						}
					}
				}
			}
		}
	}
	for _, k := range sortedKeys(st.heap) {
		_, f, _ := cutLast(k, ".")
		f = strings.TrimPrefix(f, "$")
		if all || fields[f] {
			// a field only written through unmodified pointer variables is havoced at those objects only
			if !all && !c.lastIndirect[f] && len(c.lastDirect[f])+len(c.lastExprs[f]) > 0 {
				targeted := true
				h := st.heap[k]
				for _, o := range c.lastDirect[f] {
					v, ok := st.vars[o]
					if !ok || vars[o] || v.T == "" {
						targeted = false
						break
					}
					// only objects of the struct this heap key belongs to
					h = app("store", h, v.T, c.fresh("loop_"+f, c.heapSorts[k]))
				}
				for _, ex := range c.lastExprs[f] {
					if !targeted || !c.pathStableIn(env, ex, vars, fields) {
						targeted = false
						break
					}
					ne := *env
					ne.noSafety = true
					ref := ne.eval(ex, st)
					if ne.structSortOf(ref.Ty)+"."+f != k && ne.structSortOf(ref.Ty)+".$"+f != k {
						continue // same field name on a different struct type
					}
					h = app("store", h, ref.T, c.fresh("loop_"+f, c.heapSorts[k]))
				}
				if targeted {
					st.heap[k] = h
					continue
				}
			}
			ks := c.heapKeySorts[k]
			if ks == "" {
				ks = "Int"
			}
			st.heap[k] = c.fresh("H'"+k, fmt.Sprintf("(Array %s %s)", ks, c.heapSorts[k]))
		}
	}
	// a loop that receives from channels extends the ghost receive history
	if containsRecv(nodes) {
		if v, ok := st.ghost["recv_"]; ok && v.Ty != nil {
			st.ghost["recv_"] = env.havoc(st, "recv_", v.Ty)
		} else if et := c.recvElemType(env, nodes); et != nil {
			st.ghost["recv_"] = env.havoc(st, "recv_", types.NewSlice(et))
		}
	}
	// generator bodies: a loop that yields changes the ghost output sequences
	if _, isGen := st.ghost["stopped_"]; isGen && containsYield(env, nodes) {
		for _, k := range []string{"out_", "out2_"} {
			if v, ok := st.ghost[k]; ok && v.Ty != nil {
				nv := env.havoc(st, k, v.Ty)
				st.ghost[k] = nv
			}
		}
		// implicit invariant of generator loops: the consumer has not stopped the iteration
		// when control is back at the loop head (checked at every back edge)
		st.ghost["stopped_"] = Val{T: "false", Ty: tBool}
	}
	// fields not yet touched but written in the loop are created lazily as fresh symbols,
	// which is equivalent to a havoc
	for f := range fields {
		c.loopHavocFields[f] = true
		if st.pendingHavoc == nil {
			st.pendingHavoc = map[string]bool{}
		}
		st.pendingHavoc[f] = true
	}
	if all {
		if st.pendingHavoc == nil {
			st.pendingHavoc = map[string]bool{}
		}
		st.pendingHavoc["*"] = true
	}
}

func (c *Ctx) loopSpec(env *Env) (*LoopSpec, int) {
	if k, ok := c.loopIndex[c.curLoop]; ok {
		if c.fi.Contract != nil {
			return c.fi.Contract.Loops[k], k
		}
		return nil, k
	}
	// loop of an inlined callee: no invariant available
	c.loopOrd++
	return nil, 1000 + c.loopOrd
}

func (c *Ctx) invEnv(env *Env, pos token.Pos, extra map[string]Val) *Env {
	ie := &Env{c: c, fn: env.fn, pkg: env.pkg, contract: true, scopePos: pos, bound: map[string]Val{}, old: c.entry, tsubst: env.tsubst, noSafety: true}
	// indices and collections of the enclosing range loops: idx<N>_, coll<N>_
	for n, v := range c.loopIdx {
		ie.bound[fmt.Sprintf("idx%d_", n)] = v
	}
	for n, v := range c.loopColl {
		ie.bound[fmt.Sprintf("coll%d_", n)] = v
	}
	for k, v := range extra {
		ie.bound[k] = v
	}
	return ie
}

func (c *Ctx) execFor(env *Env, x *ast.ForStmt, st *State, label string) []*State {
	if x.Init != nil {
		outs := c.execStmt(env, x.Init, st)
		if len(outs) == 0 {
			return nil
		}
		st = outs[0]
	}
	c.curLoop = x
	spec, n := c.loopSpec(env)
	if c.unroll > 0 {
		return c.unrollFor(env, x, st, label)
	}
	pos := x.Body.Lbrace + 1
	ie := c.invEnv(env, pos, nil)
	preLoop := st.clone()
	ie.loopPre = preLoop
	checkInvs := func(s *State, phase string) {
		if spec == nil {
			return
		}
		for k, inv := range spec.Invs {
			g, fits := c.evalLoopClause(ie, inv, s)
			if !fits {
				continue
			}
			c.curGroup = inv.Group
			c.addObl(s, fmt.Sprintf("loop%d/inv#%d/%s", n, k, phase), "inv", g, c.e.pos(x.Pos()), "invariant "+inv.Text, nil)
			c.curGroup = ""
		}
	}
	checkInvs(st, "init")
	c.havocLoopTargets(env, st, []ast.Node{x.Cond, x.Post, x.Body})
	if spec != nil {
		for _, inv := range spec.Invs {
			if g, fits := c.evalLoopClause(ie, inv, st); fits {
				c.assumeGrouped(st, g, inv.Group)
			}
		}
	}
	var variant string
	if spec != nil && spec.Decr != nil {
		variant = ie.eval(spec.Decr.Expr, st).T
	}
	cond := "true"
	if x.Cond != nil {
		cond = env.evalBool(x.Cond, st)
	}
	fr := c.frame()
	lc := &loopCtx{label: label}
	fr.loops = append(fr.loops, lc)
	body := st.clone()
	body.assume(cond)
	callBase := len(body.calls)
	c.addCover(body, fmt.Sprintf("loop%d/body", n), x.Pos())
	ends := c.execBlock(env, x.Body.List, []*State{body})
	ends = append(ends, lc.continues...)
	fr.loops = fr.loops[:len(fr.loops)-1]
	for pi, e := range ends {
		c.checkSteps(env, spec, n, pos, nil, e, pi, callBase, x.Pos())
		if x.Post != nil {
			outs := c.execStmt(env, x.Post, e)
			if len(outs) == 0 {
				continue
			}
			e = outs[0]
		}
		checkInvs(e, fmt.Sprintf("keep@p%d", pi))
		c.genKeep(e, n, pi, x.Pos())
		if variant != "" {
			nv := ie.eval(spec.Decr.Expr, e).T
			c.addObl(e, fmt.Sprintf("loop%d/decr@p%d", n, pi), "decr", and(app("<", nv, variant), app("<=", "0", variant)), c.e.pos(x.Pos()), "decreases "+spec.Decr.Text, nil)
		}
	}
	var out []*State
	if x.Cond != nil {
		exit := st
		exit.assume(not(cond))
		out = append(out, exit)
	}
	out = append(out, lc.breaks...)
	return c.loopExits(env, spec, n, pos, out, x.Pos())
}

// checkSteps: "step" clauses of a loop are proved at the end of every iteration (the fall-through of
// the body and every continue), in the state and with the loop variables of THAT iteration;
// called(F) inside a step clause speaks about the calls made since the loop head, i.e. in this
// iteration ("every owned operation of the log is re-applied": step owns(e) ==> called(Put) || called(Delete)).
func (c *Ctx) checkSteps(env *Env, spec *LoopSpec, n int, pos token.Pos, extra map[string]Val, s *State, pi int, callBase int, at token.Pos) {
	if spec == nil {
		return
	}
	for k, cl := range spec.Steps {
		ie := c.invEnv(env, pos, extra)
		ie.callBase = callBase
		g, fits := c.evalLoopClause(ie, cl, s)
		text := "step " + cl.Text
		if !fits {
			g = "false"
			text += " (cannot be evaluated at the end of this iteration: " + c.staleClauses[len(c.staleClauses)-1] + ")"
		}
		c.curGroup = cl.Group
		c.addObl(s, fmt.Sprintf("loop%d/step#%d@p%d", n, k, pi), "inv", g, c.e.pos(at), text, nil)
		c.curGroup = ""
	}
}

// loopExits: "exit" clauses of a loop are proved in every state that leaves the loop
// (normal exit and breaks) and assumed afterwards - an intermediate assertion that splits
// a long argument into two obligations.
func (c *Ctx) loopExits(env *Env, spec *LoopSpec, n int, pos token.Pos, out []*State, at token.Pos) []*State {
	if spec == nil || len(spec.Exits) == 0 {
		return out
	}
	ie := c.invEnv(env, pos, nil)
	for ei, s := range out {
		for k, ex := range spec.Exits {
			g, fits := c.evalLoopClause(ie, ex, s)
			if !fits {
				continue
			}
			c.curGroup = ex.Group
			c.addObl(s, fmt.Sprintf("loop%d/exit#%d@e%d", n, k, ei), "inv", g, c.e.pos(at), "exit "+ex.Text, nil)
			c.curGroup = ""
			c.assumeGrouped(s, g, ex.Group)
		}
	}
	return out
}

func (c *Ctx) addCover(st *State, name string, pos token.Pos) {
	if c.inlineTag != "" {
		return
	}
	o := &Obligation{Name: "cover." + c.fi.Key + "/" + name, Kind: "cover", Func: c.fi.Key, Assume: untag(st.pc), Goal: "false", Decls: c.decls, Where: c.e.pos(pos), Cover: true, Props: c.props}
	c.obls = append(c.obls, o)
}

func (c *Ctx) execRange(env *Env, x *ast.RangeStmt, st *State, label string) []*State {
	c.curLoop = x
	spec, n := c.loopSpec(env)
	if c.unroll > 0 {
		return c.unrollRange(env, x, st, label)
	}
	coll := env.eval(x.X, st)
	ct := types.Unalias(env.subst(coll.Ty))
	pos := x.Body.Lbrace + 1
	idx := Val{T: "0", Ty: tInt}
	var keyObj, valObj types.Object
	if id, ok := x.Key.(*ast.Ident); ok && id.Name != "_" {
		keyObj = env.resolveIdent(id)
	}
	if id, ok := x.Value.(*ast.Ident); ok && id.Name != "_" {
		valObj = env.resolveIdent(id)
	}
	var lenT string
	kind := ""
	var seqSort string
	switch u := ct.Underlying().(type) {
	case *types.Slice, *types.Array:
		kind = "slice"
		env.rangeAssume(st, coll)
		lenT = app("len_"+env.sortOf(ct), coll.T)
	case *types.Basic:
		if u.Info()&types.IsInteger != 0 {
			kind = "int"
			lenT = coll.T
		}
	case *types.Map:
		kind = "map"
	case *types.Signature:
		kind = "seq"
		// iter.Seq / iter.Seq2: a finite ghost sequence
		seqSort = env.sortOf(ct)
		lenT = app(c.seqLenFn(seqSort), coll.T)
		st.assumeOnce(app("<=", "0", lenT))
	}
	if kind == "" {
		c.unsupported("%s: range over %v", c.e.pos(x.Pos()), ct)
		return nil
	}
	if kind == "map" {
		return c.execRangeMap(env, x, st, label, coll, spec, n)
	}
	mkExtra := func(i Val) map[string]Val { return map[string]Val{"$i": i, "idx_": i, "coll_": coll} }
	ie := c.invEnv(env, pos, mkExtra(idx))
	preLoop := st.clone()
	checkInvs := func(s *State, i Val, phase string) {
		if spec == nil {
			return
		}
		if keyObj != nil && kind != "seq" {
			s.vars[keyObj] = Val{T: i.T, Ty: keyObj.Type()}
		}
		e2 := c.invEnv(env, pos, mkExtra(i))
		e2.loopPre = preLoop
		for k, inv := range spec.Invs {
			g, fits := c.evalLoopClause(e2, inv, s)
			if !fits {
				continue
			}
			c.curGroup = inv.Group
			c.addObl(s, fmt.Sprintf("loop%d/inv#%d/%s", n, k, phase), "inv", g, c.e.pos(x.Pos()), "invariant "+inv.Text, nil)
			c.curGroup = ""
		}
	}
	_ = ie
	// range over an int/slice evaluates the bound once
	if keyObj != nil {
		st.vars[keyObj] = Val{T: "0", Ty: keyObj.Type()}
	}
	if valObj != nil {
		st.vars[valObj] = env.zero(valObj.Type())
	}
	checkInvs(st, idx, "init")
	c.havocLoopTargets(env, st, []ast.Node{x.Body})
	i := env.havoc(st, "i", tInt)
	st.assume(and(app("<=", "0", i.T), app("<=", i.T, lenT)))
	if keyObj != nil && kind != "seq" {
		st.vars[keyObj] = Val{T: i.T, Ty: keyObj.Type()}
	}
	if spec != nil {
		e2 := c.invEnv(env, pos, mkExtra(i))
		e2.loopPre = preLoop
		for _, inv := range spec.Invs {
			if g, fits := c.evalLoopClause(e2, inv, st); fits {
				c.assumeGrouped(st, g, inv.Group)
			}
		}
	}
	fr := c.frame()
	lc := &loopCtx{label: label}
	fr.loops = append(fr.loops, lc)
	body := st.clone()
	body.assume(app("<", i.T, lenT))
	if keyObj != nil {
		switch kind {
		case "seq":
			sig := ct.Underlying().(*types.Signature)
			body.vars[keyObj] = c.seqElem(env, body, seqSort, sig, coll, i, 0)
		default:
			body.vars[keyObj] = Val{T: i.T, Ty: keyObj.Type()}
		}
	}
	if valObj != nil {
		switch kind {
		case "slice":
			s := env.sortOf(ct)
			v := Val{T: app("select", app("arr_"+s, coll.T), i.T), Ty: env.subst(elemOf(ct))}
			env.rangeAssume(body, v)
			body.vars[valObj] = v
		case "seq":
			sig := ct.Underlying().(*types.Signature)
			body.vars[valObj] = c.seqElem(env, body, seqSort, sig, coll, i, 1)
		}
	}
	c.addCover(body, fmt.Sprintf("loop%d/body", n), x.Pos())
	if c.loopIdx == nil {
		c.loopIdx, c.loopColl = map[int]Val{}, map[int]Val{}
	}
	c.loopIdx[n], c.loopColl[n] = i, coll
	callBase := len(body.calls)
	ends := c.execBlock(env, x.Body.List, []*State{body})
	delete(c.loopIdx, n)
	delete(c.loopColl, n)
	ends = append(ends, lc.continues...)
	fr.loops = fr.loops[:len(fr.loops)-1]
	next := Val{T: app("+", i.T, "1"), Ty: tInt}
	for pi, e := range ends {
		c.checkSteps(env, spec, n, pos, mkExtra(i), e, pi, callBase, x.Pos())
		checkInvs(e, next, fmt.Sprintf("keep@p%d", pi))
		c.genKeep(e, n, pi, x.Pos())
	}
	exit := st
	exit.assume(eq(i.T, lenT))
	// after the loop the range variables keep their last values (unknown): leave havoced
	out := []*State{exit}
	out = append(out, lc.breaks...)
	return c.loopExits(env, spec, n, pos, out, x.Pos())
}

// execRangeMap: iteration order is arbitrary; the loop is abstracted by its invariant
// over a ghost "visited" set.
func (c *Ctx) execRangeMap(env *Env, x *ast.RangeStmt, st *State, label string, coll Val, spec *LoopSpec, n int) []*State {
	mt := types.Unalias(env.subst(coll.Ty)).Underlying().(*types.Map)
	s := env.sortOf(coll.Ty)
	ks := env.sortOf(mt.Key())
	pos := x.Body.Lbrace + 1
	var keyObj, valObj types.Object
	if id, ok := x.Key.(*ast.Ident); ok && id.Name != "_" {
		keyObj = env.resolveIdent(id)
	}
	if id, ok := x.Value.(*ast.Ident); ok && id.Name != "_" {
		valObj = env.resolveIdent(id)
	}
	emptySet := fmt.Sprintf("((as const (Array %s Bool)) false)", ks)
	visTy := types.NewMap(mt.Key(), tBool)
	visSort := env.sortOf(visTy)
	mk := func(visited string, count string) map[string]Val {
		vt := app("mk_"+visSort, fmt.Sprintf("((as const (Array %s Bool)) false)", ks), visited, "0")
		return map[string]Val{"visited_": {T: vt, Ty: visTy}, "$i": {T: count, Ty: tInt}, "idx_": {T: count, Ty: tInt}, "coll_": coll}
	}
	check := func(sx *State, visited, count, phase string) {
		if spec == nil {
			return
		}
		e2 := c.invEnv(env, pos, mk(visited, count))
		e2.visitedSet = visited
		for k, inv := range spec.Invs {
			g, fits := c.evalLoopClause(e2, inv, sx)
			if !fits {
				continue
			}
			c.curGroup = inv.Group
			c.addObl(sx, fmt.Sprintf("loop%d/inv#%d/%s", n, k, phase), "inv", g, c.e.pos(x.Pos()), "invariant "+inv.Text, nil)
			c.curGroup = ""
		}
	}
	if keyObj != nil {
		st.vars[keyObj] = env.zero(keyObj.Type())
	}
	if valObj != nil {
		st.vars[valObj] = env.zero(valObj.Type())
	}
	check(st, emptySet, "0", "init")
	c.havocLoopTargets(env, st, []ast.Node{x.Body})
	visited := c.fresh("visited", fmt.Sprintf("(Array %s Bool)", ks))
	count := env.havoc(st, "cnt", tInt)
	has := app("mh_"+s, coll.T)
	kq := c.freshBound("k")
	st.assume(fmt.Sprintf("(forall ((%s %s)) (=> (select %s %s) (select %s %s)))", kq, ks, visited, kq, has, kq))
	st.assume(and(app("<=", "0", count.T), app("<=", count.T, app("mc_"+s, coll.T))))
	if spec != nil {
		e2 := c.invEnv(env, pos, mk(visited, count.T))
		e2.visitedSet = visited
		for _, inv := range spec.Invs {
			if g, fits := c.evalLoopClause(e2, inv, st); fits {
				c.assumeGrouped(st, g, inv.Group)
			}
		}
	}
	fr := c.frame()
	lc := &loopCtx{label: label}
	fr.loops = append(fr.loops, lc)
	body := st.clone()
	k := env.havoc(body, "key", mt.Key())
	body.assume(and(app("select", has, k.T), not(app("select", visited, k.T))))
	if keyObj != nil {
		body.vars[keyObj] = k
	}
	if valObj != nil {
		v := Val{T: app("select", app("mv_"+s, coll.T), k.T), Ty: env.subst(mt.Elem())}
		env.rangeAssume(body, v)
		body.vars[valObj] = v
	}
	c.addCover(body, fmt.Sprintf("loop%d/body", n), x.Pos())
	ends := c.execBlock(env, x.Body.List, []*State{body})
	ends = append(ends, lc.continues...)
	fr.loops = fr.loops[:len(fr.loops)-1]
	for pi, e := range ends {
		check(e, app("store", visited, k.T, "true"), app("+", count.T, "1"), fmt.Sprintf("keep@p%d", pi))
		c.genKeep(e, n, pi, x.Pos())
	}
	exit := st
	exit.assume(fmt.Sprintf("(forall ((%s %s)) (= (select %s %s) (select %s %s)))", kq, ks, visited, kq, has, kq))
	exit.assume(eq(count.T, app("mc_"+s, coll.T)))
	out := []*State{exit}
	out = append(out, lc.breaks...)
	return out
}

func (c *Ctx) seqLenFn(seqSort string) string {
	fn := "seq_len_" + mangle(seqSort)
	if len(fn) > 100 {
		fn = fn[:100]
	}
	c.decls.declFun(fn, []string{seqSort}, "Int")
	return fn
}

func (c *Ctx) seqElem(env *Env, st *State, seqSort string, sig *types.Signature, coll, i Val, which int) Val {
	// yield func(K) bool / func(K,V) bool
	ys, ok := sig.Params().At(0).Type().Underlying().(*types.Signature)
	if !ok || which >= ys.Params().Len() {
		return env.havoc(st, "seqel", tInt)
	}
	et := env.subst(ys.Params().At(which).Type())
	fn := fmt.Sprintf("seq_at%d_%s", which, mangle(seqSort))
	if len(fn) > 100 {
		fn = fn[:100]
	}
	c.decls.declFun(fn, []string{seqSort, "Int"}, env.sortOf(et))
	v := Val{T: app(fn, coll.T, i.T), Ty: et}
	env.rangeAssume(st, v)
	return v
}

func (c *Ctx) execReturn(env *Env, x *ast.ReturnStmt, st *State) {
	fr := c.frame()
	var vals []Val
	if len(x.Results) == 0 {
		vals = fr.namedResults(st)
	} else if len(x.Results) == 1 && fr.sig != nil && fr.sig.Results().Len() > 1 {
		v := env.eval(x.Results[0], st)
		vals = v.Tuple
		for i := range vals {
			vals[i] = env.coerce(vals[i], fr.sig.Results().At(i).Type(), st)
		}
	} else {
		for i, r := range x.Results {
			var rt types.Type
			if fr.sig != nil && i < fr.sig.Results().Len() {
				rt = fr.sig.Results().At(i).Type()
			}
			v := env.evalHint(r, st, rt)
			if rt != nil {
				v = env.coerce(v, rt, st)
			}
			vals = append(vals, v)
		}
		for i, r := range fr.resultObjs {
			if r != nil && i < len(vals) {
				st.vars[r] = vals[i]
			}
		}
	}
	if len(alive(st)) == 0 {
		return
	}
	fr.returns = append(fr.returns, retState{st: st, vals: vals})
}

func containsYield(env *Env, nodes []ast.Node) bool {
	found := false
	for _, n := range nodes {
		if n == nil {
			continue
		}
		ast.Inspect(n, func(nd ast.Node) bool {
			if ce, ok := nd.(*ast.CallExpr); ok {
				if id, ok := unparen(ce.Fun).(*ast.Ident); ok && id.Name == "yield" {
					found = true
				}
			}
			return true
		})
	}
	return found
}

// genKeep: back edge of a loop inside a generator body: the iteration was not stopped.
func (c *Ctx) genKeep(e *State, n, pi int, pos token.Pos) {
	sv, ok := e.ghost["stopped_"]
	if !ok || sv.T == "false" {
		return
	}
	c.addObl(e, fmt.Sprintf("loop%d/gen-not-stopped@p%d", n, pi), "gen", not(sv.T), c.e.pos(pos), "a generator loop continues only while the consumer wants more", nil)
}

// stablePath: an identifier or a chain of field selections on one.
func stablePath(e ast.Expr) bool {
	switch x := unparen(e).(type) {
	case *ast.Ident:
		return true
	case *ast.SelectorExpr:
		return stablePath(x.X)
	}
	return false
}

// pathStableIn: the loop modifies neither the root variable nor a field on the path.
func (c *Ctx) pathStableIn(env *Env, e ast.Expr, vars map[types.Object]bool, fields map[string]bool) bool {
	switch x := unparen(e).(type) {
	case *ast.Ident:
		o := env.resolveIdent(x)
		return o != nil && !vars[o]
	case *ast.SelectorExpr:
		if fields[x.Sel.Name] {
			return false
		}
		return c.pathStableIn(env, x.X, vars, fields)
	}
	return false
}

func containsRecv(nodes []ast.Node) bool {
	found := false
	for _, n := range nodes {
		if n == nil {
			continue
		}
		ast.Inspect(n, func(nd ast.Node) bool {
			if u, ok := nd.(*ast.UnaryExpr); ok && u.Op == token.ARROW {
				found = true
			}
			return true
		})
	}
	return found
}

func (c *Ctx) recvElemType(env *Env, nodes []ast.Node) types.Type {
	var t types.Type
	for _, n := range nodes {
		if n == nil {
			continue
		}
		ast.Inspect(n, func(nd ast.Node) bool {
			if u, ok := nd.(*ast.UnaryExpr); ok && u.Op == token.ARROW && t == nil {
				t = env.pkg.info.TypeOf(u)
			}
			return true
		})
	}
	return t
}

func identOf(e ast.Expr) *ast.Ident {
	id, _ := unparen(e).(*ast.Ident)
	return id
}


// loopLocalFresh: the identifier names a variable that is declared inside the loop being
// abstracted, initialised there by an allocation (&T{...} or new(T)) and never reassigned:
// writes through it reach only an object that did not exist at the loop head.
func (c *Ctx) loopLocalFresh(env *Env, id *ast.Ident) bool {
	o := env.resolveIdent(id)
	if o == nil || len(c.loopNodes) == 0 {
		return false
	}
	inside := false
	for _, n := range c.loopNodes {
		if n != nil && n.Pos() <= o.Pos() && o.Pos() < n.End() {
			inside = true
		}
	}
	if !inside {
		return false
	}
	defs, ok := 0, true
	for _, n := range c.loopNodes {
		if n == nil {
			continue
		}
		ast.Inspect(n, func(nd ast.Node) bool {
			as, isAs := nd.(*ast.AssignStmt)
			if !isAs {
				return true
			}
			for i, l := range as.Lhs {
				lid, isId := unparen(l).(*ast.Ident)
				if !isId || env.resolveIdent(lid) != o {
					continue
				}
				defs++
				if len(as.Rhs) != len(as.Lhs) {
					ok = false
					continue
				}
				switch r := unparen(as.Rhs[i]).(type) {
				case *ast.UnaryExpr:
					if _, isLit := unparen(r.X).(*ast.CompositeLit); !(r.Op == token.AND && isLit) {
						ok = false
					}
				case *ast.CallExpr:
					if fid, isId := unparen(r.Fun).(*ast.Ident); !(isId && fid.Name == "new") {
						ok = false
					}
				default:
					ok = false
				}
			}
			return true
		})
	}
	return ok && defs == 1
}


// execSelect: every communication clause is a possible branch (which one is taken is up to
// the scheduler); a received value is arbitrary. Channel contents are not modelled.
func (c *Ctx) execSelect(env *Env, x *ast.SelectStmt, st *State) []*State {
	c.trust("select: every ready case may be taken, received values are arbitrary (channel contents are not modelled)")
	fr := c.frame()
	lc := &loopCtx{isSwitch: true}
	fr.loops = append(fr.loops, lc)
	var out []*State
	// Go evaluates the channel and value expressions of ALL send cases once, on entering the
	// select, whichever case is then taken (also the default): their calls belong to every branch
	// (`case ch <- b.Flush(): default:` takes the batch out of the batcher even if nobody receives).
	sendVals := map[*ast.CommClause]Val{}
	for _, cl := range x.Body.List {
		if cc, ok := cl.(*ast.CommClause); ok {
			if cm, ok := cc.Comm.(*ast.SendStmt); ok {
				sendVals[cc] = env.eval(cm.Value, st)
			}
		}
	}
	// a send that is one alternative of a select is an OFFER ("trysend:<chan>"), not a send that
	// is bound to happen: contracts can tell the two apart
	sendKind := "send"
	if len(x.Body.List) > 1 {
		sendKind = "trysend"
	}
	for _, cl := range x.Body.List {
		cc := cl.(*ast.CommClause)
		t := st.clone()
		switch cm := cc.Comm.(type) {
		case nil:
		case *ast.SendStmt:
			v := sendVals[cc]
			c.chanOp(env, sendKind, cm.Chan, []Val{v}, t, cm.Pos())
		case *ast.ExprStmt:
			if ue, ok := unparen(cm.X).(*ast.UnaryExpr); ok && ue.Op == token.ARROW {
				c.chanOp(env, "recv", ue.X, nil, t, cm.Pos())
			}
		case *ast.AssignStmt:
			if len(cm.Rhs) == 1 {
				if ue, ok := unparen(cm.Rhs[0]).(*ast.UnaryExpr); ok && ue.Op == token.ARROW {
					c.chanOp(env, "recv", ue.X, nil, t, cm.Pos())
				}
			}
			if len(cm.Rhs) == 1 {
				if ue, ok := unparen(cm.Rhs[0]).(*ast.UnaryExpr); ok && ue.Op == token.ARROW {
					var et types.Type
					if ct := env.pkg.info.TypeOf(ue.X); ct != nil {
						if ch, ok := types.Unalias(env.subst(ct)).Underlying().(*types.Chan); ok {
							et = ch.Elem()
						}
					}
					for i, l := range cm.Lhs {
						var v Val
						if i == 0 && et != nil {
							v = env.havoc(t, "recv", et)
						} else {
							v = boolVal(c.fresh("recv_ok", "Bool"))
						}
						if id, ok := unparen(l).(*ast.Ident); ok && id.Name == "_" {
							continue
						}
						c.assign(env, l, v, t)
					}
				}
			}
		}
		out = append(out, c.execBlock(env, cc.Body, []*State{t})...)
	}
	fr.loops = fr.loops[:len(fr.loops)-1]
	out = append(out, lc.breaks...)
	return out
}

// chanOp records a channel operation in the per-path call log under the name "send:<chan>" or
// "recv:<chan>" (<chan> = the last identifier of the channel expression: x.C -> C), so that
// `order`, `atcall` and called() can speak about hand-shakes: "a read function is offered only
// after the completion signal of the previous one was received". Channels themselves (buffering,
// blocking) stay unmodelled.
func (c *Ctx) chanOp(env *Env, kind string, ch ast.Expr, args []Val, st *State, pos token.Pos) {
	name := ""
	switch x := unparen(ch).(type) {
	case *ast.Ident:
		name = x.Name
	case *ast.SelectorExpr:
		name = x.Sel.Name
	}
	if name == "" || env.contract {
		return
	}
	env.callHooksNamed(kind+":"+name, nil, args, st, &ast.CallExpr{Fun: &ast.Ident{NamePos: pos, Name: kind + ":" + name}, Lparen: pos, Rparen: pos})
}

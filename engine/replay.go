package main

// tryReplay attempts to turn a failed obligation into a failing input on the real code.
// Returns true when the failure was reproduced by running /repo's code.
func (e *Engine) tryReplay(o *Obligation, rec map[string]any) bool {
	return false
}

package main

// Replay of solver counterexamples on the real code.
//
// When a proof obligation (postcondition or run-time safety) fails with a model and the function
// can be called from a generated in-package test (every parameter and the receiver are of a
// "constructible" type: integers, bools, time values, slices of those, structs of those, pointers
// to such structs), the entry values are read from the model, a Go test is generated that builds
// them, calls the REAL function of /repo's current tree and evaluates the violated clause (or
// waits for the panic), and the test is run with `go test -overlay` (nothing is written to
// /repo). Only a test that fails in the expected way counts as a reproduced violation; in every
// other case (types out of reach, quantified clause, model not realisable, test passes) the
// report stays "no-failing-input-found" and the attempt is recorded in the replay file.

import (
	"bytes"
	"context"
	"encoding/json"
	"fmt"
	"go/ast"
	"go/printer"
	"go/token"
	"go/types"
	"os"
	"os/exec"
	"path/filepath"
	"strconv"
	"strings"
	"time"
)

// ReplayInfo: what is needed to call the function under verification from a test.
type ReplayInfo struct {
	Fi     *FuncInfo
	Recv   *replayParam
	Params []*replayParam
}

type replayParam struct {
	Name string
	Val  Val
	Ty   types.Type
}

var replayBudget = 3 // replay attempts per run (each costs a go test compile)

// tryReplay attempts to turn a failed obligation into a failing input on the real code.
// Returns true when the failure was reproduced by running /repo's code.
func (e *Engine) tryReplay(o *Obligation, rec map[string]any) bool {
	if o.RI == nil {
		rec["replay_attempt"] = "function cannot be called from a generated test"
		return false
	}
	if replayBudget <= 0 {
		rec["replay_attempt"] = "replay budget of this run used up"
		return false
	}
	ri := o.RI
	fi := ri.Fi
	if fi.Decl == nil || fi.Obj == nil || strings.Contains(fi.Key, "$") {
		rec["replay_attempt"] = "closure or bodyless function"
		return false
	}
	sig := fi.Obj.Type().(*types.Signature)
	if sig.TypeParams().Len() > 0 || sig.RecvTypeParams().Len() > 0 {
		rec["replay_attempt"] = "generic function"
		return false
	}
	// monitor objects carry implicit preconditions (lock invariants over guarded fields) that a
	// generated input would have to satisfy: not attempted
	for _, p := range append([]*replayParam{ri.Recv}, ri.Params...) {
		if p == nil {
			continue
		}
		if ts := e.typeSpecOfType(p.Ty); ts != nil && (len(ts.Guards) > 0 || len(ts.LockInv) > 0) {
			rec["replay_attempt"] = fmt.Sprintf("parameter %s is a monitor object (lock invariant is an implicit precondition): not attempted", p.Name)
			return false
		}
	}
	if prev, ok := replayTried[fi.Key]; ok {
		// one failing input per function and run: the other failed obligations of the function refer to it
		for k, v := range prev {
			rec[k] = v
		}
		if prev["replay_reproduced"] == true {
			rec["replay_attempt"] = fmt.Sprintf("same failing input as obligation %v of this function", prev["replay_for"])
			return true
		}
		rec["replay_attempt"] = fmt.Sprintf("already attempted for obligation %v of this function: %v", prev["replay_for"], prev["replay_attempt"])
		return false
	}
	replayBudget--
	ok := e.modelReplay(o, rec) || e.searchReplay(o, rec)
	rel, _ := filepath.Rel(e.repo, filepath.Dir(e.fset.Position(fi.Decl.Pos()).Filename))
	rec["replay_pkg"] = rel
	keep := map[string]any{"replay_for": o.Name, "replay_reproduced": ok}
	for _, k := range []string{"replay_test", "replay_cmd", "replay_output", "replay_attempt", "replay_found_by", "replay_pkg"} {
		if v, has := rec[k]; has {
			keep[k] = v
		}
	}
	replayTried[fi.Key] = keep
	return ok
}

var replayTried = map[string]map[string]any{}

// modelReplay: the solver's model of the failed obligation as the input.
func (e *Engine) modelReplay(o *Obligation, rec map[string]any) bool {
	note := func(s string) bool {
		rec["replay_attempt"] = s
		return false
	}
	if o.Status != "sat" {
		return note("no model from the solver (status " + o.Status + ")")
	}
	if o.Kind != "post" && o.Kind != "safety" {
		return note("the model of a failed " + o.Kind + " obligation describes a state inside the function, not an input")
	}
	ri := o.RI
	fi := ri.Fi
	g := &replayGen{e: e, o: o, pkg: fi.Pkg.Types, imports: map[string]bool{"fmt": true, "testing": true}, pkgNames: importNames(fi)}
	var roots []*rnode
	all := append([]*replayParam{}, ri.Params...)
	if ri.Recv != nil {
		all = append([]*replayParam{ri.Recv}, all...)
	}
	for _, p := range all {
		n := g.node(p.Val.T, p.Ty, 0)
		if n == nil {
			return note(fmt.Sprintf("parameter %s of type %s cannot be constructed by a generated test", p.Name, p.Ty))
		}
		n.name = p.Name
		roots = append(roots, n)
	}
	// rounds of get-value: scalars and lengths first, then elements
	if err := g.fetch(roots); err != nil {
		return note("model values: " + err.Error())
	}
	src, err := g.testSource(ri, roots)
	if err != nil {
		return note(err.Error())
	}
	rec["replay_test"] = src
	out, reproduced, cmdline := g.run(fi, src)
	rec["replay_cmd"] = cmdline
	rec["replay_output"] = out
	if reproduced {
		rec["replay_attempt"] = "reproduced on /repo's current tree with the solver's model as input"
		return true
	}
	return note("the solver's model did not make the generated test fail (see replay_output)")
}

// searchReplay: no usable model (the failed obligation is an invariant, a call precondition, or
// the solver answered unknown). The contract itself is executable for many functions: a
// generated test draws inputs from a fixed pseudo-random sequence, keeps those that satisfy the
// executable preconditions, calls the real function and evaluates the executable postconditions.
// A failure is a failing input of the real code (found by bounded search, not by the solver).
func (e *Engine) searchReplay(o *Obligation, rec map[string]any) bool {
	prev, _ := rec["replay_attempt"].(string)
	note := func(s string) bool {
		rec["replay_attempt"] = prev + "; bounded search: " + s
		return false
	}
	ri := o.RI
	fi := ri.Fi
	con := fi.Contract
	if con == nil {
		return note("no contract")
	}
	g := &replayGen{e: e, o: o, pkg: fi.Pkg.Types, imports: map[string]bool{"fmt": true, "testing": true}, pkgNames: importNames(fi)}
	sig := fi.Obj.Type().(*types.Signature)
	var decl strings.Builder
	var names []string
	all := append([]*replayParam{}, ri.Params...)
	if ri.Recv != nil {
		all = append([]*replayParam{ri.Recv}, all...)
	}
	for _, p := range all {
		ge := g.genExpr(p.Ty, 0)
		if ge == "" {
			return note(fmt.Sprintf("parameter %s of type %s cannot be generated", p.Name, p.Ty))
		}
		fmt.Fprintf(&decl, "\t\t%s := %s\n\t\t_ = %s\n", p.Name, ge, p.Name)
		names = append(names, p.Name)
	}
	scoped := func(cl *Clause) bool {
		return len(cl.Props) > 0 && e.curProp != "" && !has(cl.Props, e.curProp)
	}
	var pre []string
	for _, r := range con.Requires {
		if scoped(r) {
			continue
		}
		ex, hs, err := g.goClause(r.Expr, sig)
		if err != nil || len(hs) > 0 {
			return note("a precondition is not executable (" + r.Text + ")")
		}
		pre = append(pre, "("+ex+")")
	}
	var posts, postTexts []string
	var hoists []string
	for _, en := range con.Ensures {
		if scoped(en) {
			continue
		}
		ex, hs, err := g.goClause(en.Expr, sig)
		if err != nil {
			continue
		}
		// renumber the hoisted old() values of this clause
		for i := len(hs) - 1; i >= 0; i-- {
			ex = strings.ReplaceAll(ex, fmt.Sprintf("govcOld%d", i), fmt.Sprintf("govcOld%d", len(hoists)+i))
		}
		hoists = append(hoists, hs...)
		posts = append(posts, ex)
		postTexts = append(postTexts, en.Text)
	}
	if len(posts) == 0 && o.Kind != "safety" {
		return note("no executable postcondition")
	}
	var b strings.Builder
	b.WriteString("\tgovcX := uint64(88172645463325252)\n\tgovcNext := func() uint64 { govcX ^= govcX << 13; govcX ^= govcX >> 7; govcX ^= govcX << 17; return govcX }\n\t_ = govcNext\n")
	b.WriteString("\tgovcTried := 0\n\tfor govcTry := 0; govcTry < 200000 && govcTried < 20000; govcTry++ {\n")
	b.WriteString(decl.String())
	if len(pre) > 0 {
		fmt.Fprintf(&b, "\t\tif !(%s) {\n\t\t\tcontinue\n\t\t}\n", strings.Join(pre, " && "))
	}
	b.WriteString("\t\tgovcTried++\n")
	var fm, fa []string
	for _, n := range names {
		fm = append(fm, n+"=%s")
		fa = append(fa, "govcShow("+n+")")
	}
	fmt.Fprintf(&b, "\t\tgovcInput := fmt.Sprintf(%q, %s)\n", strings.Join(fm, " "), strings.Join(fa, ", "))
	for i, h := range hoists {
		fmt.Fprintf(&b, "\t\tgovcOld%d := govcClone(%s)\n\t\t_ = govcOld%d\n", i, h, i)
	}
	var rs []string
	for i := 0; i < sig.Results().Len(); i++ {
		fmt.Fprintf(&b, "\t\tvar govcR%d %s\n\t\t_ = govcR%d\n", i, g.typeStr(sig.Results().At(i).Type()), i)
		rs = append(rs, fmt.Sprintf("govcR%d", i))
	}
	call := fi.Obj.Name() + "("
	if ri.Recv != nil {
		call = ri.Recv.Name + "." + call
	}
	var as []string
	for i, p := range ri.Params {
		a := p.Name
		if sig.Variadic() && i == len(ri.Params)-1 {
			a += "..."
		}
		as = append(as, a)
	}
	call += strings.Join(as, ", ") + ")"
	if len(rs) > 0 {
		call = strings.Join(rs, ", ") + " = " + call
	}
	fmt.Fprintf(&b, "\t\tgovcPanicked := false\n\t\tvar govcPV any\n\t\t_ = govcPV\n\t\tfunc() {\n\t\t\tdefer func() {\n\t\t\t\tif r := recover(); r != nil {\n\t\t\t\t\tgovcPanicked, govcPV = true, r\n\t\t\t\t}\n\t\t\t}()\n\t\t\t%s\n\t\t}()\n", call)
	if o.Kind == "safety" && con.PanicsWhen == nil {
		b.WriteString("\t\tif govcPanicked {\n\t\t\tgovcT.Fatalf(\"GOVC-REPLAY-REPRODUCED: the call panics (%v) on input %s\", govcPV, govcInput)\n\t\t}\n")
	} else {
		b.WriteString("\t\tif govcPanicked {\n\t\t\tcontinue\n\t\t}\n")
	}
	for i, pc := range posts {
		fmt.Fprintf(&b, "\t\tif !(%s) {\n\t\t\tgovcT.Fatalf(\"GOVC-REPLAY-REPRODUCED: %%s is false after the call on input %%s; results: %%v\", %q, govcInput, []any{%s})\n\t\t}\n", pc, "ensures "+postTexts[i], strings.Join(rs, ", "))
	}
	b.WriteString("\t}\n\tfmt.Printf(\"GOVC-REPLAY search: %d inputs satisfied the preconditions, none violated an executable postcondition\\n\", govcTried)\n")
	var imps []string
	for p := range g.imports {
		if p != g.pkg.Path() {
			imps = append(imps, strconv.Quote(p))
		}
	}
	sortStrings(imps)
	src := fmt.Sprintf("package %s\n\nimport (\n\t%s\n)\n\n// generated by govc: bounded search for a failing input of %s (obligation %s failed)\nfunc TestGovcReplay(govcT *testing.T) {\n%s}\n\n%s%s",
		g.pkg.Name(), strings.Join(imps, "\n\t"), fi.Key, o.Name, b.String(), replayHelpers, searchHelpers)
	rec["replay_test"] = src
	out, reproduced, cmdline := g.run(fi, src)
	rec["replay_cmd"] = cmdline
	rec["replay_output"] = out
	if reproduced {
		rec["replay_attempt"] = prev + "; bounded search over the executable contract found a failing input of the real code"
		rec["replay_found_by"] = "bounded search (fixed pseudo-random sequence, at most 20000 admissible inputs), not a solver model"
		return true
	}
	return note("no failing input among the generated ones (see replay_output)")
}

const searchHelpers = `
func govcShow(v any) string {
	s := fmt.Sprintf("%+v", v)
	if len(s) > 300 {
		s = s[:300] + "..."
	}
	return s
}

var govcInts = []int64{0, 1, 2, 3, 4, 5, 6, 7, 8, 9, 10, 15, 16, 17, 31, 32, 33, 63, 64, 100, 255, 256, 257, 1000, 65535, 65536, -1, -2}

func govcInt(r uint64) int64 {
	if r%4 == 0 {
		return govcInts[(r>>8)%uint64(len(govcInts))]
	}
	return int64((r >> 8) % 12)
}
`

// genExpr: Go expression that draws a value of type t from govcNext().
func (g *replayGen) genExpr(t types.Type, depth int) string {
	if depth > 3 || t == nil {
		return ""
	}
	u := types.Unalias(t)
	if isTime(u) {
		g.imports["time"] = true
		return "time.Unix(0, govcInt(govcNext()))"
	}
	switch x := u.Underlying().(type) {
	case *types.Basic:
		switch {
		case x.Info()&types.IsInteger != 0:
			return fmt.Sprintf("%s(govcInt(govcNext()))", g.typeStr(t))
		case x.Kind() == types.Bool:
			return "(govcNext()%2 == 0)"
		case x.Kind() == types.String:
			return fmt.Sprintf("%s(func() []byte { b := make([]byte, govcNext()%%5); for i := range b { b[i] = byte('a' + govcNext()%%3) }; return b }())", g.typeStr(t))
		}
		return ""
	case *types.Slice:
		el := g.genExpr(x.Elem(), depth+1)
		if el == "" {
			return ""
		}
		ts := g.typeStr(t)
		return fmt.Sprintf("func() %s { s := make(%s, govcNext()%%7); for i := range s { s[i] = %s }; return s }()", ts, ts, el)
	case *types.Struct:
		if g.foreignOpaque(u, x) {
			return ""
		}
		var fs []string
		for i := 0; i < x.NumFields(); i++ {
			f := x.Field(i)
			if isSyncType(f.Type()) {
				continue
			}
			ge := g.genExpr(f.Type(), depth+1)
			if ge == "" {
				// a field that cannot be generated (interface, func, map, channel) keeps its zero
				// value; a run that touches it panics and is skipped
				continue
			}
			fs = append(fs, f.Name()+": "+ge)
		}
		return fmt.Sprintf("%s{%s}", g.typeStr(t), strings.Join(fs, ", "))
	case *types.Pointer:
		if st, ok := types.Unalias(x.Elem()).Underlying().(*types.Struct); !ok || g.foreignOpaque(types.Unalias(x.Elem()), st) {
			return ""
		}
		in := g.genExpr(x.Elem(), depth)
		if in == "" {
			return ""
		}
		return "&" + in
	}
	return ""
}

type rnode struct {
	name   string
	kind   string // int bool time dur slice struct ptr
	term   string
	ty     types.Type
	lenT   string
	arrT   string
	elemTy types.Type
	n      int
	elems  []*rnode
	fields []*rnode
	fnames []string
	val    string
	isNil  bool
}

type replayGen struct {
	pkgNames map[string]string // package name -> import path (imports of the package under test)
	e       *Engine
	o       *Obligation
	pkg     *types.Package
	imports map[string]bool
	env     *Env
}

func (g *replayGen) sortOf(t types.Type) string {
	env := &Env{c: &Ctx{e: g.e, decls: g.o.Decls}}
	return env.sortOf(t)
}

// node describes how to read a value of type t denoted by SMT term `term` from the model.
func (g *replayGen) node(term string, t types.Type, depth int) *rnode {
	if depth > 3 || t == nil {
		return nil
	}
	u := types.Unalias(t)
	if isTime(u) {
		return &rnode{kind: "time", term: term, ty: t}
	}
	switch x := u.Underlying().(type) {
	case *types.Basic:
		switch {
		case x.Info()&types.IsInteger != 0:
			if n, ok := u.(*types.Named); ok && n.Obj().Pkg() != nil && n.Obj().Pkg().Path() == "time" && n.Obj().Name() == "Duration" {
				return &rnode{kind: "dur", term: term, ty: t}
			}
			return &rnode{kind: "int", term: term, ty: t}
		case x.Kind() == types.Bool:
			return &rnode{kind: "bool", term: term, ty: t}
		}
		return nil
	case *types.Slice:
		s := g.sortOf(t)
		if !strings.HasPrefix(s, "Sl_") {
			return nil
		}
		return &rnode{kind: "slice", term: term, ty: t, lenT: app("len_"+s, term), arrT: app("arr_"+s, term), elemTy: x.Elem()}
	case *types.Struct:
		if g.foreignOpaque(u, x) {
			return nil
		}
		s := g.sortOf(t)
		n := &rnode{kind: "struct", term: term, ty: t}
		for i := 0; i < x.NumFields(); i++ {
			f := x.Field(i)
			if isSyncType(f.Type()) {
				continue // zero mutex
			}
			fn := g.node(app(fieldSel(s, f.Name()), term), f.Type(), depth+1)
			if fn == nil {
				return nil
			}
			n.fields = append(n.fields, fn)
			n.fnames = append(n.fnames, f.Name())
		}
		return n
	case *types.Pointer:
		st, ok := types.Unalias(x.Elem()).Underlying().(*types.Struct)
		if !ok || g.foreignOpaque(types.Unalias(x.Elem()), st) {
			return nil
		}
		s := g.sortOf(x.Elem())
		n := &rnode{kind: "ptr", term: term, ty: t}
		for i := 0; i < st.NumFields(); i++ {
			f := st.Field(i)
			if isSyncType(f.Type()) {
				continue
			}
			key := s + "." + f.Name()
			fn := g.node(app("select", "|H:"+key+"|", term), f.Type(), depth+1)
			if fn == nil {
				return nil
			}
			n.fields = append(n.fields, fn)
			n.fnames = append(n.fnames, f.Name())
		}
		return n
	}
	return nil
}

func isSyncType(t types.Type) bool {
	if n, ok := types.Unalias(t).(*types.Named); ok && n.Obj().Pkg() != nil {
		return n.Obj().Pkg().Path() == "sync"
	}
	return false
}

// fetch evaluates the needed terms in the solver's model (query re-run with get-value).
func (g *replayGen) fetch(roots []*rnode) error {
	q := g.e.query(g.o, false, false)
	declared := func(t string) bool {
		// heap symbols that the query never mentions do not exist in it
		for _, tok := range strings.FieldsFunc(t, func(r rune) bool { return r == '(' || r == ')' || r == ' ' }) {
			if strings.HasPrefix(tok, "|H:") && !strings.Contains(q, "(declare-fun "+tok+" ") && !strings.Contains(q, "(declare-const "+tok+" ") {
				return false
			}
		}
		return true
	}
	for round := 0; round < 4; round++ {
		var terms []string
		var targets []*rnode
		var walk func(n *rnode)
		walk = func(n *rnode) {
			switch n.kind {
			case "int", "bool", "time", "dur":
				if n.val == "" {
					if !declared(n.term) {
						n.val = "0"
						if n.kind == "bool" {
							n.val = "false"
						}
						return
					}
					terms = append(terms, n.term)
					targets = append(targets, n)
				}
			case "slice":
				if n.val == "" {
					if !declared(n.lenT) {
						n.val, n.n = "0", 0
						return
					}
					terms = append(terms, n.lenT)
					targets = append(targets, n)
					return
				}
				for _, el := range n.elems {
					walk(el)
				}
			case "struct":
				for _, f := range n.fields {
					walk(f)
				}
			case "ptr":
				if n.val == "" {
					terms = append(terms, n.term)
					targets = append(targets, n)
					return
				}
				if !n.isNil {
					for _, f := range n.fields {
						walk(f)
					}
				}
			}
		}
		for _, r := range roots {
			walk(r)
		}
		if len(terms) == 0 {
			return nil
		}
		vals, err := g.getValues(q, terms)
		if err != nil {
			return err
		}
		for i, n := range targets {
			v := vals[i]
			switch n.kind {
			case "slice":
				k, err := strconv.Atoi(v)
				if err != nil || k < 0 || k > 48 {
					return fmt.Errorf("slice length %q out of the replayable range", v)
				}
				n.val, n.n = v, k
				for j := 0; j < k; j++ {
					el := g.node(app("select", n.arrT, strconv.Itoa(j)), n.elemTy, 1)
					if el == nil {
						return fmt.Errorf("slice element type %s not constructible", n.elemTy)
					}
					n.elems = append(n.elems, el)
				}
			case "ptr":
				n.val = v
				n.isNil = v == "0"
			default:
				n.val = v
			}
		}
	}
	return nil
}

func (g *replayGen) getValues(q string, terms []string) ([]string, error) {
	dir, err := os.MkdirTemp("", "govc-replay-")
	if err != nil {
		return nil, err
	}
	defer os.RemoveAll(dir)
	f := filepath.Join(dir, "m.smt2")
	var b strings.Builder
	b.WriteString("(set-option :produce-models true)\n")
	b.WriteString(q)
	for _, t := range terms {
		fmt.Fprintf(&b, "(get-value (%s))\n", t)
	}
	os.WriteFile(f, []byte(b.String()), 0o644)
	ctx, cancel := context.WithTimeout(context.Background(), 25*time.Second)
	defer cancel()
	solver := "z3-new"
	if base, _, _ := strings.Cut(g.o.Solver, "/"); base == "z3" {
		solver = "z3" // the solver that produced the model
	}
	out, _ := exec.CommandContext(ctx, solver, "-T:20", f).Output()
	lines := strings.SplitN(string(out), "\n", 2)
	if strings.TrimSpace(lines[0]) != "sat" || len(lines) < 2 {
		return nil, fmt.Errorf("solver answered %q on the re-run", strings.TrimSpace(lines[0]))
	}
	// each get-value prints ((term value)); values are the last s-expression before the final "))"
	var vals []string
	rest := lines[1]
	for range terms {
		i := strings.Index(rest, "((")
		if i < 0 {
			return nil, fmt.Errorf("unexpected get-value output")
		}
		depth, j := 0, i
		for ; j < len(rest); j++ {
			if rest[j] == '(' {
				depth++
			} else if rest[j] == ')' {
				depth--
				if depth == 0 {
					break
				}
			}
		}
		item := rest[i+2 : j-1] // term value
		rest = rest[j+1:]
		vals = append(vals, lastSexp(strings.TrimSpace(item)))
	}
	return vals, nil
}

// lastSexp returns the last s-expression of "term value", normalised: (- 5) -> -5.
func lastSexp(s string) string {
	s = strings.TrimSpace(s)
	if strings.HasSuffix(s, ")") {
		depth := 0
		for i := len(s) - 1; i >= 0; i-- {
			if s[i] == ')' {
				depth++
			} else if s[i] == '(' {
				depth--
				if depth == 0 {
					v := strings.Join(strings.Fields(s[i:]), " ")
					if strings.HasPrefix(v, "(- ") {
						return "-" + strings.TrimSuffix(strings.TrimPrefix(v, "(- "), ")")
					}
					return v
				}
			}
		}
	}
	fs := strings.Fields(s)
	return fs[len(fs)-1]
}

func (g *replayGen) typeStr(t types.Type) string {
	return types.TypeString(t, func(p *types.Package) string {
		if p == g.pkg {
			return ""
		}
		g.imports[p.Path()] = true
		return p.Name()
	})
}

// lit renders the Go expression that builds the value.
func (g *replayGen) lit(n *rnode) (string, error) {
	switch n.kind {
	case "int":
		if _, err := strconv.ParseInt(n.val, 10, 64); err != nil {
			if _, err2 := strconv.ParseUint(n.val, 10, 64); err2 != nil {
				return "", fmt.Errorf("model value %q is not an integer literal", n.val)
			}
		}
		return fmt.Sprintf("%s(%s)", g.typeStr(n.ty), n.val), nil
	case "dur":
		g.imports["time"] = true
		return fmt.Sprintf("time.Duration(%s)", n.val), nil
	case "time":
		g.imports["time"] = true
		v, err := strconv.ParseInt(n.val, 10, 64)
		if err != nil {
			return "time.Time{}", nil // below every Unix-nanosecond value: the zero time
		}
		return fmt.Sprintf("time.Unix(0, %d)", v), nil
	case "bool":
		return n.val, nil
	case "slice":
		var es []string
		for _, e := range n.elems {
			s, err := g.lit(e)
			if err != nil {
				return "", err
			}
			es = append(es, s)
		}
		return fmt.Sprintf("%s{%s}", g.typeStr(n.ty), strings.Join(es, ", ")), nil
	case "struct", "ptr":
		if n.kind == "ptr" && n.isNil {
			return "nil", nil
		}
		var fs []string
		for i, f := range n.fields {
			s, err := g.lit(f)
			if err != nil {
				return "", err
			}
			fs = append(fs, n.fnames[i]+": "+s)
		}
		t := n.ty
		amp := ""
		if n.kind == "ptr" {
			t = types.Unalias(n.ty).Underlying().(*types.Pointer).Elem()
			amp = "&"
		}
		return fmt.Sprintf("%s%s{%s}", amp, g.typeStr(t), strings.Join(fs, ", ")), nil
	}
	return "", fmt.Errorf("unsupported value kind %s", n.kind)
}

// testSource generates the in-package test.
func (g *replayGen) testSource(ri *ReplayInfo, roots []*rnode) (string, error) {
	fi := ri.Fi
	sig := fi.Obj.Type().(*types.Signature)
	var body strings.Builder
	for _, r := range roots {
		l, err := g.lit(r)
		if err != nil {
			return "", err
		}
		fmt.Fprintf(&body, "\t%s := %s\n\t_ = %s\n", r.name, l, r.name)
	}
	// the violated clause as Go (postconditions only)
	check := ""
	var hoists []string
	if g.o.Kind == "post" {
		if g.o.ClauseAST == nil {
			return "", fmt.Errorf("clause not available for replay")
		}
		ex, hs, err := g.goClause(g.o.ClauseAST, sig)
		if err != nil {
			return "", err
		}
		check, hoists = ex, hs
	}
	for i, h := range hoists {
		fmt.Fprintf(&body, "\tgovcOld%d := govcClone(%s)\n\t_ = govcOld%d\n", i, h, i)
	}
	var rs []string
	for i := 0; i < sig.Results().Len(); i++ {
		fmt.Fprintf(&body, "\tvar govcR%d %s\n\t_ = govcR%d\n", i, g.typeStr(sig.Results().At(i).Type()), i)
		rs = append(rs, fmt.Sprintf("govcR%d", i))
	}
	call := fi.Obj.Name() + "("
	if ri.Recv != nil {
		call = ri.Recv.Name + "." + call
	}
	var as []string
	for i, p := range ri.Params {
		a := p.Name
		if sig.Variadic() && i == len(ri.Params)-1 {
			a += "..."
		}
		as = append(as, a)
	}
	call += strings.Join(as, ", ") + ")"
	if len(rs) > 0 {
		call = strings.Join(rs, ", ") + " = " + call
	}
	fmt.Fprintf(&body, "\tgovcPanicked := false\n\tfunc() {\n\t\tdefer func() {\n\t\t\tif r := recover(); r != nil {\n\t\t\t\tgovcPanicked = true\n\t\t\t\tfmt.Printf(\"GOVC-REPLAY panic: %%v\\n\", r)\n\t\t\t}\n\t\t}()\n\t\t%s\n\t}()\n", call)
	if g.o.Kind == "safety" {
		body.WriteString("\tif govcPanicked {\n\t\tgovcT.Fatalf(\"GOVC-REPLAY-REPRODUCED: the call panics on this input\")\n\t}\n")
	} else {
		body.WriteString("\tif govcPanicked {\n\t\tgovcT.Skip(\"the call govcPanicked: not the postcondition\")\n\t}\n")
		fmt.Fprintf(&body, "\tif !(%s) {\n\t\tgovcT.Fatalf(\"GOVC-REPLAY-REPRODUCED: the clause is false after the call; results: %%v\", []any{%s})\n\t}\n", check, strings.Join(rs, ", "))
	}
	var imps []string
	for p := range g.imports {
		if p != g.pkg.Path() {
			imps = append(imps, strconv.Quote(p))
		}
	}
	sortStrings(imps)
	src := fmt.Sprintf("package %s\n\nimport (\n\t%s\n)\n\n// generated by govc from the solver model of obligation %s\nfunc TestGovcReplay(govcT *testing.T) {\n%s}\n\n%s",
		g.pkg.Name(), strings.Join(imps, "\n\t"), g.o.Name, body.String(), replayHelpers)
	return src, nil
}

func sortStrings(s []string) {
	for i := range s {
		for j := i + 1; j < len(s); j++ {
			if s[j] < s[i] {
				s[i], s[j] = s[j], s[i]
			}
		}
	}
}

const replayHelpers = `func govcClone[T any](x T) T {
	switch v := any(x).(type) {
	case []byte:
		return any(append([]byte(nil), v...)).(T)
	case []int:
		return any(append([]int(nil), v...)).(T)
	case []uint32:
		return any(append([]uint32(nil), v...)).(T)
	case []uint64:
		return any(append([]uint64(nil), v...)).(T)
	case []int64:
		return any(append([]int64(nil), v...)).(T)
	}
	return x
}
`

// goClause turns the clause AST into a Go expression: result/resultN -> rN, old(E) -> oldK
// (E evaluated before the call). Clauses with specification-only constructs are not replayed.
func (g *replayGen) goClause(e ast.Expr, sig *types.Signature) (string, []string, error) {
	var hoists []string
	var bad error
	var rw func(n ast.Expr) ast.Expr
	printE := func(n ast.Expr) string {
		var b bytes.Buffer
		printer.Fprint(&b, token.NewFileSet(), n)
		return b.String()
	}
	specOnly := map[string]bool{"exists": true, "has": true, "same": true, "seqlen": true, "seqat": true, "ite": true, "called": true, "ncalled": true, "inloop": true, "held": true,
		"fresh": true, "remaining": true, "jsonof": true, "rankof": true, "trig": true, "indexof": true, "hasprefix": true}
	rw = func(n ast.Expr) ast.Expr {
		switch x := n.(type) {
		case *ast.Ident:
			if x.Name == "result" {
				return ast.NewIdent("govcR0")
			}
			if strings.HasPrefix(x.Name, "result") {
				if k, err := strconv.Atoi(strings.TrimPrefix(x.Name, "result")); err == nil {
					return ast.NewIdent(fmt.Sprintf("govcR%d", k))
				}
			}
			return x
		case *ast.CallExpr:
			if id, ok := x.Fun.(*ast.Ident); ok {
				if id.Name == "old" && len(x.Args) == 1 {
					hoists = append(hoists, printE(x.Args[0]))
					return ast.NewIdent(fmt.Sprintf("govcOld%d", len(hoists)-1))
				}
				if specOnly[id.Name] {
					bad = fmt.Errorf("the clause uses the specification construct %s(...): not executable", id.Name)
				}
				if id.Name == "forall" && len(x.Args) != 3 {
					bad = fmt.Errorf("the clause quantifies over an unbounded domain: not executable")
				}
			}
			c := *x
			c.Args = nil
			for _, a := range x.Args {
				c.Args = append(c.Args, rw(a))
			}
			c.Fun = rw(x.Fun)
			return &c
		case *ast.BinaryExpr:
			c := *x
			c.X, c.Y = rw(x.X), rw(x.Y)
			return &c
		case *ast.UnaryExpr:
			c := *x
			c.X = rw(x.X)
			return &c
		case *ast.ParenExpr:
			c := *x
			c.X = rw(x.X)
			return &c
		case *ast.SelectorExpr:
			if id, ok := x.X.(*ast.Ident); ok && g.pkgNames != nil {
				if path, isPkg := g.pkgNames[id.Name]; isPkg {
					g.imports[path] = true
					return x
				}
			}
			c := *x
			c.X = rw(x.X)
			return &c
		case *ast.IndexExpr:
			c := *x
			c.X, c.Index = rw(x.X), rw(x.Index)
			return &c
		case *ast.SliceExpr:
			c := *x
			c.X = rw(x.X)
			if x.Low != nil {
				c.Low = rw(x.Low)
			}
			if x.High != nil {
				c.High = rw(x.High)
			}
			return &c
		case *ast.FuncLit:
			// quantifier bodies: rewrite the single return expression
			c := *x
			b := *x.Body
			c.Body = &b
			b.List = nil
			for _, s := range x.Body.List {
				if r, ok := s.(*ast.ReturnStmt); ok && len(r.Results) == 1 {
					rr := *r
					rr.Results = []ast.Expr{rw(r.Results[0])}
					b.List = append(b.List, &rr)
				} else {
					b.List = append(b.List, s)
				}
			}
			return &c
		case *ast.CompositeLit, *ast.BasicLit, *ast.StarExpr, *ast.TypeAssertExpr:
			return x
		}
		return n
	}
	out := rw(e)
	if bad != nil {
		return "", nil, bad
	}
	return printE(out), hoists, nil
}

// run executes the generated test against /repo through an overlay.
func (g *replayGen) run(fi *FuncInfo, src string) (string, bool, string) {
	dir, err := os.MkdirTemp("", "govc-replay-")
	if err != nil {
		return err.Error(), false, ""
	}
	defer os.RemoveAll(dir)
	pkgDir := filepath.Dir(g.e.fset.Position(fi.Decl.Pos()).Filename)
	tf := filepath.Join(dir, "zz_govc_replay_test.go")
	os.WriteFile(tf, []byte(src), 0o644)
	ov := map[string]string{}
	if g.e.overlayPath != "" {
		if b, err := os.ReadFile(g.e.overlayPath); err == nil {
			var o struct{ Replace map[string]string }
			if json.Unmarshal(b, &o) == nil {
				for k, v := range o.Replace {
					ov[k] = v
				}
			}
		}
	}
	ov[filepath.Join(pkgDir, "zz_govc_replay_test.go")] = tf
	ob, _ := json.Marshal(map[string]any{"Replace": ov})
	ovf := filepath.Join(dir, "ov.json")
	os.WriteFile(ovf, ob, 0o644)
	rel, _ := filepath.Rel(g.e.repo, pkgDir)
	args := []string{"test", "-tags", "verif", "-overlay", ovf, "-vet=off", "-count=1", "-timeout", "60s", "-run", "^TestGovcReplay$", "./" + rel + "/"}
	ctx, cancel := context.WithTimeout(context.Background(), 240*time.Second)
	defer cancel()
	cmd := exec.CommandContext(ctx, "go", args...)
	cmd.Dir = g.e.repo
	cmd.Env = append(os.Environ(), "GOFLAGS=-mod=mod", "GOPROXY=off")
	out, err := cmd.CombinedOutput()
	s := string(out)
	if len(s) > 4000 {
		s = s[:4000] + "..."
	}
	return s, err != nil && strings.Contains(s, "GOVC-REPLAY-REPRODUCED"), "cd " + g.e.repo + " && go " + strings.Join(args, " ") + "   (overlay: generated protobuf code + the test in replay_test as " + filepath.Join(rel, "zz_govc_replay_test.go") + ")"
}

// typeSpecOfType: the //@ type block of a (pointer to a) named struct type, if any.
func (e *Engine) typeSpecOfType(t types.Type) *TypeSpec {
	t = types.Unalias(t)
	if p, ok := t.Underlying().(*types.Pointer); ok {
		t = types.Unalias(p.Elem())
	}
	n, ok := t.(*types.Named)
	if !ok || n.Obj().Pkg() == nil {
		return nil
	}
	return e.typeSpecs[n.Obj().Pkg().Name()+"."+n.Obj().Name()]
}

// foreignOpaque: a struct type of another package with unexported fields cannot be written as a literal.
func (g *replayGen) foreignOpaque(t types.Type, st *types.Struct) bool {
	n, ok := t.(*types.Named)
	if !ok || n.Obj().Pkg() == nil || n.Obj().Pkg() == g.pkg {
		return false
	}
	for i := 0; i < st.NumFields(); i++ {
		if !st.Field(i).Exported() {
			return true
		}
	}
	return false
}

func importNames(fi *FuncInfo) map[string]string {
	m := map[string]string{}
	for path, ip := range fi.Pkg.Imports {
		if ip != nil && ip.Name != "" {
			m[ip.Name] = path
		}
	}
	return m
}

package main

import (
	"fmt"
	"go/ast"
	"go/parser"
	"go/token"
	"go/types"
	"golang.org/x/tools/go/packages"
	"math/big"
	"sort"
	"strings"
)

var bigOne = big.NewInt(1)

func parseGoExpr(s string) (ast.Expr, error) { return parser.ParseExpr(rewriteImplies(s)) }

// extra Ctx/Env fields are declared here to keep state.go readable
type ctxExtra struct {
	strLits         []string
	sentinels       map[string]bool
	noSafety        bool
	inlineTag       string
	heapSorts       map[string]string
	heapKeySorts    map[string]string
	knownRefs       []string
	freshRefs       map[string]bool
	lossless        bool
	frames          []*frame
	unspecified     map[string]bool
	calleesUsed     map[string]bool
	typeTags        map[string]int
	modDepth        int
	loopHavocFields map[string]bool
	frameAllPrefix  [][2]string // "modifies GenericType.f": struct-sort prefix and field
	loopNodes       []ast.Node
	entryArgs       map[string]Val
	strict          bool
	writes          map[string]bool
	lockedOnce      map[string]bool
	freshList       []string
	ptrField        map[string]int
	freshErrs       []string
	lastDirect      map[string][]types.Object
	lastIndirect    map[string]bool
	lastExprs       map[string][]ast.Expr
	callOcc         map[*ast.CallExpr]int
	closureMode     bool
	loopIdx         map[int]Val
	loopColl        map[int]Val
	captured        map[types.Object]Val
	loopIndex       map[ast.Node]int
	curLoop         ast.Node
}

func newCtx(e *Engine, fi *FuncInfo) *Ctx {
	c := &Ctx{e: e, fi: fi, decls: newDecls(), ord: map[string]int{}, callOrd: map[string]int{}, trustedUsed: map[string]bool{},
		frameRefs: map[string][]string{}, frameAll: map[string]bool{}}
	c.sentinels = map[string]bool{}
	c.heapSorts = map[string]string{}
	c.heapKeySorts = map[string]string{}
	c.freshRefs = map[string]bool{}
	c.unspecified = map[string]bool{}
	c.calleesUsed = map[string]bool{}
	c.typeTags = map[string]int{}
	c.loopHavocFields = map[string]bool{}
	c.writes = map[string]bool{}
	c.lockedOnce = map[string]bool{}
	c.ptrField = map[string]int{}
	c.lastDirect = map[string][]types.Object{}
	c.lastIndirect = map[string]bool{}
	c.lastExprs = map[string][]ast.Expr{}
	if fi.Contract != nil {
		c.props = fi.Contract.Props
		c.bv = fi.Contract.ModeBV
		c.noSafety = fi.Contract.NoSafety
		c.unroll = fi.Contract.Unroll
	}
	return c
}

// FuncResult summarises the verification of one function.
type FuncResult struct {
	Key         string
	Outside     string
	Notes       []string
	Obls        []*Obligation
	Trusted     []string
	Unspecified []string
	Callees     []string
	Trust       bool
}

// verifyFunc generates all obligations of one function under contract.
func (e *Engine) verifyFunc(fi *FuncInfo) *FuncResult {
	res := &FuncResult{Key: fi.Key}
	con := fi.Contract
	// "Func$N": the N-th function literal inside Func, verified as a function of its own
	// (task closures, cleanup callbacks, goroutine bodies); captured variables are arbitrary
	if base, nth, ok := strings.Cut(fi.Key, "$"); ok && fi.Decl == nil {
		return e.verifyClosure(fi, base, nth)
	}
	if fi.Decl == nil || fi.Decl.Body == nil {
		if con != nil && con.isTrusted(e.curProp) {
			res.Trust = true
			return res
		}
		res.Outside = "function not found in the current tree (contract " + con.Where + ")"
		return res
	}
	if con != nil && con.isTrusted(e.curProp) {
		res.Trust = true
		return res
	}
	c := newCtx(e, fi)
	defer func() {
		if r := recover(); r != nil {
			res.Outside = fmt.Sprintf("engine error: %v", r)
			res.Obls = nil
		}
	}()
	env := &Env{c: c, fn: fi, pkg: c.pkgRefOf(fi), bound: map[string]Val{}}
	st := newState()
	c.entry = st
	c.assumeAxioms(st, fi.Pkg)
	sig := fi.Obj.Type().(*types.Signature)
	rv, ps, rs := paramObjs(fi)
	bind := map[string]Val{}
	if rv != nil {
		v := env.havoc(st, rv.Name(), rv.Type())
		st.vars[rv] = v
		bind[rv.Name()] = v
		bind["self"] = v
		if _, _, isPtr := structOf(rv.Type()); isPtr {
			st.assume(fmt.Sprintf("(> %s 0)", v.T)) // receiver non-nil (listed assumption)
			c.trust("method receivers are non-nil")
			c.knownRefs = append(c.knownRefs, v.T)
		}
	}
	for i, p := range ps {
		if p == nil {
			continue
		}
		v := env.havoc(st, p.Name(), p.Type())
		if sg, ok := p.Type().Underlying().(*types.Signature); ok && sg != nil {
			v.Ty = p.Type()
		}
		st.vars[p] = v
		bind[p.Name()] = v
		bind[fmt.Sprintf("arg%d", i)] = v
		if _, isP := types.Unalias(p.Type()).Underlying().(*types.Pointer); isP {
			c.knownRefs = append(c.knownRefs, v.T)
		}
	}
	c.entryArgs = bind
	// what a generated test needs to call this function with a solver model (replay.go)
	if c.inlineTag == "" {
		ri := &ReplayInfo{Fi: fi}
		if rv != nil {
			ri.Recv = &replayParam{Name: rv.Name(), Val: bind[rv.Name()], Ty: rv.Type()}
		}
		okNames := true
		for _, p := range ps {
			if p == nil || p.Name() == "" || p.Name() == "_" {
				okNames = false
				break
			}
			ri.Params = append(ri.Params, &replayParam{Name: p.Name(), Val: bind[p.Name()], Ty: p.Type()})
		}
		if okNames && (rv == nil || (rv.Name() != "" && rv.Name() != "_")) {
			c.replayInfo = ri
		}
	}
	for _, r := range rs {
		if r != nil {
			st.vars[r] = env.zero(r.Type())
		}
	}
	// requires
	if con != nil {
		pre := c.contractEnv(fi, nil, bind, nil, nil)
		for _, r := range con.Requires {
			if len(r.Props) > 0 && e.curProp != "" && !has(r.Props, e.curProp) {
				continue // scoped to other properties
			}
			st.assume(pre.evalBool(r.Expr, st))
		}
	}
	if con != nil {
		pre := c.contractEnv(fi, nil, bind, nil, nil)
		for _, h := range con.Holds {
			st.held[env.lockToken(pre, h, st)] = true
		}
	}
	entrySnap := st.clone()
	c.entry = entrySnap
	// lemma methods instantiated at entry (specification context: no obligation, the lemma's
	// postcondition is assumed under its precondition; the lemma method is verified on its own)
	if con != nil {
		pre := c.contractEnv(fi, nil, bind, nil, nil)
		for _, a := range con.Applies {
			pre.eval(a.Expr, st)
		}
	}
	// vacuity guard: the precondition must be satisfiable
	c.addCover(st, "pre", fi.Decl.Pos())
	// declared frame
	if con != nil {
		pre := c.contractEnv(fi, nil, bind, nil, nil)
		for _, m := range con.Modifies {
			if strings.HasPrefix(m, "*") {
				// "*p": the cell a pointer to a non-struct value points at
				if ex, err := parseExprCached(strings.TrimPrefix(m, "*")); err == nil {
					ref := pre.eval(ex, entrySnap)
					if pt, ok := types.Unalias(pre.subst(ref.Ty)).Underlying().(*types.Pointer); ok {
						k := "ptr." + pre.sortOf(pt.Elem())
						c.frameRefs[k] = append(c.frameRefs[k], ref.T)
					}
				}
				continue
			}
			base, field, ok := cutLast(m, ".")
			if !ok {
				continue
			}
			if tt := pre.frameType(base); tt != nil {
				ss := pre.sortOf(tt)
				if c.genericInstances(tt, ss) != nil {
					c.frameAllPrefix = append(c.frameAllPrefix, [2]string{ss + "_", field})
					continue
				}
				for _, f := range c.structFields(ss, field) {
					c.frameAll[ss+"."+f] = true
					c.frameAll[ss+".$"+f] = true
				}
				continue
			}
			ex, err := parseExprCached(base)
			if err != nil {
				continue
			}
			ref := pre.eval(ex, entrySnap)
			if is := pre.sortOf(ref.Ty); strings.HasPrefix(is, "If_") {
				c.frameRefs[is+".$"+field] = append(c.frameRefs[is+".$"+field], ref.T)
				continue
			}
			ss := pre.structSortOf(ref.Ty)
			for _, f := range c.structFields(ss, field) {
				k := ss + "." + f
				if pre.ghostFieldType(ref.Ty, f) != nil {
					k = ss + ".$" + f
				}
				c.frameRefs[k] = append(c.frameRefs[k], ref.T)
			}
		}
	}
	// loops are numbered in source order (closures included)
	c.loopIndex = map[ast.Node]int{}
	ast.Inspect(fi.Decl.Body, func(n ast.Node) bool {
		switch n.(type) {
		case *ast.ForStmt, *ast.RangeStmt:
			c.loopIndex[n] = len(c.loopIndex)
		}
		return true
	})
	// ghost history of channel receives (recv_) starts empty
	if et := c.recvElemType(env, []ast.Node{fi.Decl.Body}); et != nil {
		st.ghost["recv_"] = env.zero(types.NewSlice(et))
	}
	fr := &frame{fi: fi, env: env, resultObjs: rs, sig: sig}
	c.frames = []*frame{fr}
	outs := c.execBlock(env, fi.Decl.Body.List, []*State{st})
	for _, o := range outs {
		fr.returns = append(fr.returns, retState{st: o, vals: fr.namedResults(o)})
	}
	// postconditions on every return path
	retIdx := 0
	for _, r := range fr.returns {
		rstate := r.st
		c.runDefers(fr, rstate)
		if len(alive(rstate)) == 0 {
			continue
		}
		// generator: the function returns an iterator literal; its body is verified here and
		// the postconditions speak about the sequence it yields
		if gen := generatorOf(r.vals, sig); gen != nil {
			for _, g := range c.runGenerator(env, gen, rstate, sig) {
				c.checkReturn(fi, con, g.st, entrySnap, bind, g.vals, retIdx)
				retIdx++
			}
			continue
		}
		c.checkReturn(fi, con, rstate, entrySnap, bind, r.vals, retIdx)
		retIdx++
	}
	res.Obls = c.obls
	res.Outside = c.outside
	res.Notes = c.notes
	for _, sc := range c.staleClauses {
		res.Notes = append(res.Notes, "loop clause does not apply to the current code and was dropped: "+sc)
	}
	for k := range c.trustedUsed {
		res.Trusted = append(res.Trusted, k)
	}
	sort.Strings(res.Trusted)
	res.Unspecified = sortedKeys(c.unspecified)
	res.Callees = sortedKeys(c.calleesUsed)
	if res.Outside != "" {
		// a function outside the subset is never counted as proved
		res.Obls = nil
	}
	return res
}

func lockName(k string) string {
	_, f, _ := cutLast(k, ".")
	return f
}

// frameObligations: heap fields may only change at the declared references.
func (c *Ctx) frameObligations(st, entry *State, ri int) {
	for _, key := range sortedKeys(st.heap) {
		h := st.heap[key]
		h0, ok := entry.heap[key]
		if !ok {
			h0 = "|H:" + key + "|"
		}
		if h == h0 || c.frameAll[key] {
			continue
		}
		if ss, fld, ok := cutLast(key, "."); ok {
			skip := false
			for _, pf := range c.frameAllPrefix {
				if strings.HasPrefix(ss, pf[0]) && (pf[1] == "*" || pf[1] == strings.TrimPrefix(fld, "$")) {
					skip = true
				}
			}
			if skip {
				continue
			}
		}
		// lock-guarded fields of monitor objects are unstable outside their lock: not part of any caller-visible frame
		if ss, fld, ok := cutLast(key, "."); ok {
			if ts := c.e.typeSpecForSort(ss); ts != nil {
				guarded := false
				for _, fs := range ts.Guards {
					for _, g := range fs {
						if g == fld {
							guarded = true
						}
					}
				}
				if guarded && len(c.frameRefs[key]) == 0 {
					continue
				}
			}
			// objects owned by a monitor ("guards mu: ..., T.*")
			owned := false
			for _, ts := range c.e.typeSpecs {
				for _, fs := range ts.Guards {
					for _, g := range fs {
						tn, gf, ok := strings.Cut(g, ".")
						if !ok || (gf != "*" && gf != fld) {
							continue
						}
						pkg, _, _ := strings.Cut(ts.Key, ".")
						if ss == "St_"+pkg+"_"+tn || strings.HasPrefix(ss, "St_"+pkg+"_"+tn+"_") {
							owned = true
						}
					}
				}
			}
			if owned && len(c.frameRefs[key]) == 0 {
				continue
			}
		}
		refs := append([]string(nil), c.frameRefs[key]...)
		// objects allocated by this function are outside the caller's view
		for r := range c.freshRefs {
			refs = append(refs, r)
		}
		sort.Strings(refs)
		r := c.freshBound("r")
		var conds []string
		for _, ref := range refs {
			conds = append(conds, not(eq(r, ref)))
		}
		ksort := c.heapKeySorts[key]
		if ksort == "" {
			ksort = "Int"
		}
		if ksort != "Int" {
			// interface-keyed ghost heap: fresh references do not apply
			conds = nil
			for _, ref := range c.frameRefs[key] {
				conds = append(conds, not(eq(r, ref)))
			}
		}
		goal := fmt.Sprintf("(forall ((%s %s)) %s)", r, ksort, implies(and(conds...), eq(app("select", h, r), app("select", h0, r))))
		_, f, _ := cutLast(key, ".")
		c.addObl(st, fmt.Sprintf("frame/%s@ret%d", f, ri), "frame", goal, c.e.pos(c.fi.Decl.Pos()), "modifies only "+strings.Join(c.fi.Contract.Modifies, ", "), nil)
	}
}

func (c *Ctx) frameWrite(env *Env, st *State, key, ref string, pos token.Pos) {
	c.writes[key] = true
}

// runDefers executes deferred calls (unlock etc.) at a return.
func (c *Ctx) runDefers(fr *frame, st *State) {
	var rest []deferredCall
	var mine []deferredCall
	for _, d := range st.defers {
		if d.frame == fr {
			mine = append(mine, d)
		} else {
			rest = append(rest, d)
		}
	}
	st.defers = rest
	for i := len(mine) - 1; i >= 0; i-- {
		mine[i].env.eval(mine[i].call, st)
	}
}

// lockDiscipline emits the obligation that a guarded field is only touched with its mutex held.
func (env *Env) lockDiscipline(st *State, base Val, ssort, field string, pos token.Pos) {
	c := env.c
	if env.noSafety || env.contract || env.oldMode {
		return
	}
	if c.fi.Contract != nil && c.fi.Contract.Exclusive {
		c.trust("exclusive: " + c.fi.Key + " runs before its receiver is shared (lock discipline waived)")
		return
	}
	ts := c.e.typeSpecForSort(ssort)
	if ts == nil {
		return
	}
	for mu, fs := range ts.Guards {
		for _, f := range fs {
			if f == field {
				tok := base.T + "." + mu
				if c.freshRefs[base.T] {
					continue // constructor exemption: object not yet shared
				}
				if !st.held[tok] && !st.held["*."+mu] {
					name := fmt.Sprintf("lock/%s/discipline#%d", mu, c.ordinal("lockdisc/"+mu))
					c.addObl(st, name, "lock", "false", c.e.pos(pos), fmt.Sprintf("field %s is guarded by %s", field, mu), nil)
				} else {
					c.ordinal("lockdisc/" + mu)
				}
			}
		}
	}
}

func (e *Engine) typeSpecForSort(ssort string) *TypeSpec {
	for k, ts := range e.typeSpecs {
		pkg, name, _ := strings.Cut(k, ".")
		if ssort == "St_"+pkg+"_"+name || strings.HasPrefix(ssort, "St_"+pkg+"_"+name+"_") {
			return ts
		}
		// interface types: If_<path>_<Type> (ghost fields keyed by the interface value)
		if strings.HasPrefix(ssort, "If_") && (strings.HasSuffix(ssort, "_"+pkg+"_"+name) || ssort == "If_"+pkg+"_"+name) {
			return ts
		}
		// library types are opaque sorts Ext_<path>_<Type>
		if strings.HasPrefix(ssort, "Ext_") && strings.HasSuffix(ssort, "_"+pkg+"_"+name) {
			return ts
		}
	}
	return nil
}

// lockOp models mu.Lock()/Unlock() on a guarded object.
func (env *Env) lockOp(recvExpr ast.Expr, op string, st *State, pos token.Pos) {
	c := env.c
	sel, ok := unparen(recvExpr).(*ast.SelectorExpr)
	if !ok {
		c.trust("mutex not reached through a struct field: lock operations ignored")
		return
	}
	base := env.eval(sel.X, st)
	mu := sel.Sel.Name
	_, sty, isPtr := structOf(env.subst(base.Ty))
	if sty == nil || !isPtr {
		return
	}
	ssort := env.structSortOf(base.Ty)
	tok := base.T + "." + mu
	ts := c.e.typeSpecForSort(ssort)
	ie := func(s *State) *Env {
		e2 := &Env{c: c, fn: env.fn, pkg: env.pkg, contract: true, bound: map[string]Val{"self": base}, old: c.entry, tsubst: env.tsubst, noSafety: true}
		if ts != nil {
			// lock invariants are written in the package that declares the type
			e2.fn = nil
			e2.pkg = &pkgRef{info: ts.Pkg.TypesInfo, types: ts.Pkg.Types, files: ts.Pkg.Syntax}
		}
		return e2
	}
	switch op {
	case "Lock", "RLock":
		if st.held[tok] {
			name := fmt.Sprintf("lock/%s/reentrant#%d", mu, c.ordinal("lockre/"+mu))
			c.addObl(st, name, "lock", "false", c.e.pos(pos), "mutex is not re-entrant", nil)
		}
		st.held[tok] = true
		if ts != nil {
			// other threads may have changed the guarded fields: havoc, then assume the invariant
			if !c.freshRefs[base.T] {
				for _, f := range ts.Guards[mu] {
					if tn, fld, ok := strings.Cut(f, "."); ok {
						// Type.* / Type.f : objects owned by the monitor
						if o, ok := env.lookupName(tn).(*types.TypeName); ok {
							os := env.sortOf(o.Type())
							for _, fn := range c.structFields(os, fld) {
								okey := os + "." + fn
								srt := c.fieldSortByKey(env, o.Type(), fn)
								env.heapTerm(st, okey, srt)
								st.heap[okey] = c.fresh("H'"+okey, fmt.Sprintf("(Array Int %s)", srt))
								if c.inlineTag == "" && c.entry != nil && !c.lockedOnce[tok] {
									c.entry.heap[okey] = st.heap[okey]
								}
							}
						}
						continue
					}
					key := ssort + "." + f
					var ft types.Type
					for i := 0; i < sty.NumFields(); i++ {
						if sty.Field(i).Name() == f {
							ft = sty.Field(i).Type()
						}
					}
					if ft == nil {
						continue
					}
					h := env.heapTerm(st, key, env.sortOf(ft))
					nv := env.havoc(st, "locked_"+f, ft)
					st.heap[key] = app("store", h, base.T, nv.T)
					// old(...) of a guarded field means its value when the lock was acquired:
					// the method's atomic transition starts there (monitor argument)
					if c.inlineTag == "" && c.entry != nil && !c.lockedOnce[tok] {
						c.entry.heap[key] = st.heap[key]
					}
				}
				c.lockedOnce[tok] = true
			}
			for _, inv := range ts.LockInv[mu] {
				st.assume(ie(st).evalBool(inv.Expr, st))
			}
		}
	case "Unlock", "RUnlock":
		if !st.held[tok] {
			name := fmt.Sprintf("lock/%s/unlock-unheld#%d", mu, c.ordinal("lockun/"+mu))
			c.addObl(st, name, "lock", "false", c.e.pos(pos), "unlock of a mutex that is not held", nil)
		}
		if ts != nil && op == "Unlock" {
			for k, inv := range ts.LockInv[mu] {
				g := ie(st).evalBool(inv.Expr, st)
				name := fmt.Sprintf("lock/%s/inv#%d@unlock%d", mu, k, c.ordinal(fmt.Sprintf("lockinv/%s/%d", mu, k)))
				c.addObl(st, name, "lock", g, c.e.pos(pos), "lockinv "+inv.Text, nil)
			}
		}
		delete(st.held, tok)
	}
}

// verifyLemma: a stand-alone statement over contracts and ghost functions.
// assumeAxioms adds the "//@ axiom" facts of a package (assumed facts about library functions,
// listed in the trusted base) to a fresh entry state.
func (c *Ctx) assumeAxioms(st *State, pkg *packages.Package) {
	for _, l := range c.e.lemmas {
		if !(l.Axiom || l.Bridge) || l.Pkg != pkg || "lemma."+l.Name == c.fi.Key || (l.Bridge && c.bv) {
			continue
		}
		env := &Env{c: c, pkg: &pkgRef{info: l.Pkg.TypesInfo, types: l.Pkg.Types, files: l.Pkg.Syntax}, contract: true, bound: map[string]Val{}, noSafety: true}
		var binders, bnames, rangeGuards []string
		ok := true
		for _, p := range l.Params {
			te, err := parser.ParseExpr(p.Type)
			if err != nil {
				ok = false
				break
			}
			t := env.typeOfExpr(te)
			if t == nil {
				ok = false
				break
			}
			bn := c.freshBound(p.Name)
			binders = append(binders, fmt.Sprintf("(%s %s)", bn, env.sortOf(t)))
			bnames = append(bnames, bn)
			if lo, hi, isInt := intRange(t); isInt {
				rangeGuards = append(rangeGuards, app("<=", smtInt(lo), bn), app("<=", bn, smtInt(hi)))
			}
			env.bound[p.Name] = Val{T: bn, Ty: t}
			env.qvars = append(env.qvars, fmt.Sprintf("(%s %s)", bn, env.sortOf(t)))
			env.qnames = append(env.qnames, bn)
		}
		if !ok {
			c.unsupported("axiom %s: parameter types", l.Name)
			continue
		}
		scratch := st.clone()
		n := len(scratch.pc)
		var pre, post []string
		for _, r := range l.Requires {
			pre = append(pre, env.evalBool(r.Expr, scratch))
		}
		for _, en := range l.Ensures {
			post = append(post, env.evalBool(en.Expr, scratch))
		}
		wrap := func(f string) string {
			if len(binders) == 0 {
				return f
			}
			return fmt.Sprintf("(forall (%s) %s)", strings.Join(binders, " "), f)
		}
		for _, ex := range untag(scratch.pc[n:]) {
			mentions := false
			for _, bn := range bnames {
				if strings.Contains(ex, bn) {
					mentions = true
				}
			}
			if mentions {
				st.assumeOnce(wrap(ex))
			} else {
				st.assumeOnce(ex)
			}
		}
		st.assume(wrap(implies(and(append(rangeGuards, pre...)...), and(post...))))
		if l.Bridge {
			c.trust("bit-vector lemma " + l.Name + " (proved by the solver over 64-bit vectors) is used as a fact about the uninterpreted integer bit operations of the same values")
		} else {
			c.trust("axiom " + l.Name + " (assumed): " + l.Ensures[0].Text)
		}
	}
}

func (e *Engine) verifyLemma(l *Lemma) *FuncResult {
	res := &FuncResult{Key: "lemma." + l.Name}
	if l.Axiom {
		res.Trusted = []string{"axiom " + l.Name + " (assumed, not proved)"}
		return res
	}
	fi := &FuncInfo{Key: "lemma." + l.Name, Pkg: l.Pkg, Contract: &Contract{Props: l.Props}}
	c := newCtx(e, fi)
	c.noSafety = true
	c.bv = l.ModeBV
	defer func() {
		if r := recover(); r != nil {
			res.Outside = fmt.Sprintf("engine error: %v", r)
			res.Obls = nil
		}
	}()
	st := newState()
	c.entry = st
	env := &Env{c: c, fn: nil, pkg: &pkgRef{info: l.Pkg.TypesInfo, types: l.Pkg.Types, files: l.Pkg.Syntax}, contract: true, bound: map[string]Val{}, noSafety: true}
	c.assumeAxioms(st, l.Pkg)
	for _, p := range l.Params {
		te, err := parser.ParseExpr(p.Type)
		if err != nil {
			res.Outside = "lemma parameter type: " + err.Error()
			return res
		}
		t := env.typeOfExpr(te)
		if t == nil {
			res.Outside = "lemma parameter type unresolved: " + p.Type
			return res
		}
		env.bound[p.Name] = env.havoc(st, p.Name, t)
	}
	for _, r := range l.Requires {
		st.assume(env.evalBool(r.Expr, st))
	}
	o := &Obligation{Name: "cover.lemma." + l.Name + "/pre", Kind: "cover", Func: fi.Key, Assume: append([]string(nil), st.pc...), Goal: "false", Decls: c.decls, Where: l.Where, Cover: true, Props: l.Props}
	c.obls = append(c.obls, o)
	for k, en := range l.Ensures {
		g := env.evalBool(en.Expr, st)
		ob := &Obligation{Name: fmt.Sprintf("lemma.%s/ensures#%d", l.Name, k), Kind: "lemma", Func: fi.Key, Assume: append([]string(nil), st.pc...), Goal: g, Decls: c.decls, Where: l.Where, Clause: "ensures " + en.Text, Props: l.Props}
		c.obls = append(c.obls, ob)
	}
	res.Obls = c.obls
	res.Outside = c.outside
	res.Notes = c.notes
	for _, sc := range c.staleClauses {
		res.Notes = append(res.Notes, "loop clause does not apply to the current code and was dropped: "+sc)
	}
	for k := range c.trustedUsed {
		res.Trusted = append(res.Trusted, k)
	}
	sort.Strings(res.Trusted)
	if res.Outside != "" {
		res.Obls = nil
	}
	return res
}

func (c *Ctx) checkReturn(fi *FuncInfo, con *Contract, rstate, entrySnap *State, bind map[string]Val, vals []Val, ri int) {
	c.addCover(rstate, fmt.Sprintf("return#%d", ri), fi.Decl.End())
	if con != nil {
		post := c.contractEnv(fi, entrySnap, bind, vals, nil)
		for k, en := range con.Ensures {
			if len(en.Props) > 0 && c.e.curProp != "" && !has(en.Props, c.e.curProp) {
				continue // scoped to other properties
			}
			g := post.evalBool(en.Expr, rstate)
			c.curGroup = en.Group
			c.addObl(rstate, fmt.Sprintf("post#%d@ret%d", k, ri), "post", g, c.e.pos(fi.Decl.Pos()), "ensures "+en.Text, en.Props)
			c.obls[len(c.obls)-1].ClauseAST = en.Expr
			c.curGroup = ""
		}
		for k, ck := range con.Checks {
			if len(ck.Props) > 0 && c.e.curProp != "" && !has(ck.Props, c.e.curProp) {
				continue
			}
			if g, fits := c.evalLoopClause(post, ck, rstate); fits {
				c.addObl(rstate, fmt.Sprintf("check#%d@ret%d", k, ri), "post", g, c.e.pos(fi.Decl.Pos()), "checks "+ck.Text, ck.Props)
			}
		}
		if con.HasMod {
			c.frameObligations(rstate, entrySnap, ri)
		}
	}
	// locks must not be held at return unless the contract says so
	for _, k := range sortedKeys(rstate.held) {
		if !entrySnap.held[k] {
			c.addObl(rstate, fmt.Sprintf("lock/%s/released@ret%d", lockName(k), ri), "lock", "false", c.e.pos(fi.Decl.Pos()), "lock released on every return path", nil)
		}
	}
}

// generatorOf: the returned value is a func literal of iterator shape func(yield func(...) bool).
func generatorOf(vals []Val, sig *types.Signature) *Closure {
	if len(vals) != 1 || vals[0].Fn == nil || vals[0].Fn.Lit == nil || sig.Results().Len() != 1 {
		return nil
	}
	rs, ok := types.Unalias(sig.Results().At(0).Type()).Underlying().(*types.Signature)
	if !ok || rs.Params().Len() != 1 || rs.Results().Len() != 0 {
		return nil
	}
	ys, ok := rs.Params().At(0).Type().Underlying().(*types.Signature)
	if !ok || ys.Results().Len() != 1 {
		return nil
	}
	return vals[0].Fn
}

// runGenerator executes the iterator body with a ghost output sequence. Returned states are the
// complete runs (the consumer never stopped); result is the sequence value of everything yielded.
func (c *Ctx) runGenerator(outer *Env, gen *Closure, st *State, sig *types.Signature) []retState {
	cenv := gen.Env
	sub := *cenv
	sub.bound = map[string]Val{}
	for k, v := range cenv.bound {
		sub.bound[k] = v
	}
	rs := types.Unalias(sig.Results().At(0).Type()).Underlying().(*types.Signature)
	ys := rs.Params().At(0).Type().Underlying().(*types.Signature)
	seqT := sig.Results().At(0).Type()
	g := st.clone()
	for i := 0; i < ys.Params().Len() && i < 2; i++ {
		key := "out_"
		if i == 1 {
			key = "out2_"
		}
		st := types.NewSlice(sub.subst(ys.Params().At(i).Type()))
		g.ghost[key] = sub.zero(st)
	}
	g.ghost["stopped_"] = Val{T: "false", Ty: tBool}
	// bind the yield parameter
	for _, f := range gen.Lit.Type.Params.List {
		for _, n := range f.Names {
			if o := cenv.pkg.info.Defs[n]; o != nil {
				g.vars[o] = Val{T: c.fresh("yield", sub.sortOf(o.Type())), Ty: o.Type(), Fn: &Closure{Yield: true}}
			}
		}
	}
	c.trust("iterator bodies are verified for complete runs from the state at creation; early-stop only checked for 'no yield after stop'")
	fr := &frame{env: &sub, sig: rs}
	c.frames = append(c.frames, fr)
	outs := c.execBlock(&sub, gen.Lit.Body.List, []*State{g})
	for _, o := range outs {
		fr.returns = append(fr.returns, retState{st: o})
	}
	c.runDefersAll(fr)
	c.frames = c.frames[:len(c.frames)-1]
	var res []retState
	for _, r := range fr.returns {
		e := r.st
		e.assume(not(e.ghost["stopped_"].T))
		if len(alive(e)) == 0 {
			continue
		}
		// the sequence value
		ss := sub.sortOf(seqT)
		sv := c.fresh("yielded", ss)
		out := e.ghost["out_"]
		os := sub.sortOf(out.Ty)
		e.assume(eq(app(c.seqLenFn(ss), sv), app("len_"+os, out.T)))
		i := c.freshBound("i")
		at0 := seqAtFn(c, &sub, ss, elemOf(out.Ty), 0)
		e.assume(fmt.Sprintf("(forall ((%s Int)) (! (= (%s %s %s) (select (arr_%s %s) %s)) :pattern ((%s %s %s)) :pattern ((select (arr_%s %s) %s))))", i, at0, sv, i, os, out.T, i, at0, sv, i, os, out.T, i))
		if out2, ok := e.ghost["out2_"]; ok && out2.Ty != nil {
			o2 := sub.sortOf(out2.Ty)
			at1 := seqAtFn(c, &sub, ss, elemOf(out2.Ty), 1)
			e.assume(fmt.Sprintf("(forall ((%s Int)) (! (= (%s %s %s) (select (arr_%s %s) %s)) :pattern ((%s %s %s)) :pattern ((select (arr_%s %s) %s))))", i, at1, sv, i, o2, out2.T, i, at1, sv, i, o2, out2.T, i))
		}
		res = append(res, retState{st: e, vals: []Val{{T: sv, Ty: seqT}}})
	}
	return res
}

func (c *Ctx) runDefersAll(fr *frame) {
	for _, r := range fr.returns {
		c.runDefers(fr, r.st)
	}
}

// verifyClosure verifies the N-th function literal (source order) of an enclosing function.
func (e *Engine) verifyClosure(fi *FuncInfo, base, nth string) *FuncResult {
	res := &FuncResult{Key: fi.Key}
	outer := e.funcs[base]
	if outer == nil || outer.Decl == nil || outer.Decl.Body == nil {
		res.Outside = "enclosing function " + base + " not found in the current tree"
		return res
	}
	var lits []*ast.FuncLit
	ast.Inspect(outer.Decl.Body, func(n ast.Node) bool {
		if fl, ok := n.(*ast.FuncLit); ok {
			lits = append(lits, fl)
		}
		return true
	})
	k := -1
	fmt.Sscanf(nth, "%d", &k)
	if k < 0 || k >= len(lits) {
		res.Outside = fmt.Sprintf("%s has %d function literals, no #%s", base, len(lits), nth)
		return res
	}
	lit := lits[k]
	con := fi.Contract
	fi.Pkg = outer.Pkg
	c := newCtx(e, fi)
	c.closureMode = true
	defer func() {
		if r := recover(); r != nil {
			res.Outside = fmt.Sprintf("engine error: %v", r)
			res.Obls = nil
		}
	}()
	// evaluation scope: the enclosing function (so that captured names resolve)
	scopeFi := &FuncInfo{Key: fi.Key, Pkg: outer.Pkg, Decl: outer.Decl, Obj: outer.Obj, Contract: con}
	c.fi = scopeFi
	env := &Env{c: c, fn: scopeFi, pkg: c.pkgRefOf(outer), bound: map[string]Val{}}
	st := newState()
	c.entry = st
	bind := map[string]Val{}
	info := outer.Pkg.TypesInfo
	i := 0
	for _, f := range lit.Type.Params.List {
		for _, n := range f.Names {
			if o, ok := info.Defs[n].(*types.Var); ok {
				v := env.havoc(st, o.Name(), o.Type())
				st.vars[o] = v
				bind[o.Name()] = v
				bind[fmt.Sprintf("arg%d", i)] = v
			}
			i++
		}
	}
	var rs []*types.Var
	if lit.Type.Results != nil {
		for _, f := range lit.Type.Results.List {
			for _, n := range f.Names {
				if o, ok := info.Defs[n].(*types.Var); ok {
					rs = append(rs, o)
					st.vars[o] = env.zero(o.Type())
				}
			}
		}
	}
	c.entryArgs = bind
	sig, _ := info.TypeOf(lit).(*types.Signature)
	if con != nil {
		pre := c.closureContractEnv(env, lit, bind, nil, nil)
		for _, r := range con.Requires {
			st.assume(pre.evalBool(r.Expr, st))
		}
		for _, h := range con.Holds {
			st.held[env.lockToken(pre, h, st)] = true
		}
	}
	entrySnap := st.clone()
	c.entry = entrySnap
	c.loopIndex = map[ast.Node]int{}
	ast.Inspect(lit.Body, func(n ast.Node) bool {
		switch n.(type) {
		case *ast.ForStmt, *ast.RangeStmt:
			c.loopIndex[n] = len(c.loopIndex)
		}
		return true
	})
	fr := &frame{fi: scopeFi, env: env, resultObjs: rs, sig: sig}
	c.frames = []*frame{fr}
	outs := c.execBlock(env, lit.Body.List, []*State{st})
	for _, o := range outs {
		fr.returns = append(fr.returns, retState{st: o, vals: fr.namedResults(o)})
	}
	for ri, r := range fr.returns {
		c.runDefers(fr, r.st)
		if len(alive(r.st)) == 0 {
			continue
		}
		if con != nil {
			post := c.closureContractEnv(env, lit, bind, r.vals, entrySnap)
			for kk, en := range con.Ensures {
				g := post.evalBool(en.Expr, r.st)
				c.addObl(r.st, fmt.Sprintf("post#%d@ret%d", kk, ri), "post", g, c.e.pos(lit.Pos()), "ensures "+en.Text, nil)
			}
		}
		for _, kk := range sortedKeys(r.st.held) {
			if !entrySnap.held[kk] {
				c.addObl(r.st, fmt.Sprintf("lock/%s/released@ret%d", lockName(kk), ri), "lock", "false", c.e.pos(lit.Pos()), "lock released on every return path", nil)
			}
		}
	}
	for _, o := range c.obls {
		o.Name = strings.Replace(o.Name, scopeFi.Key+"/", fi.Key+"/", 1)
		o.Func = fi.Key
	}
	res.Obls = c.obls
	res.Outside = c.outside
	res.Notes = c.notes
	for _, sc := range c.staleClauses {
		res.Notes = append(res.Notes, "loop clause does not apply to the current code and was dropped: "+sc)
	}
	for t := range c.trustedUsed {
		res.Trusted = append(res.Trusted, t)
	}
	sort.Strings(res.Trusted)
	res.Unspecified = sortedKeys(c.unspecified)
	res.Callees = sortedKeys(c.calleesUsed)
	if res.Outside != "" {
		res.Obls = nil
	}
	return res
}

// closureContractEnv: contract expressions of a function literal are evaluated in the
// scope at the start of its body (its parameters and the captured variables are visible).
func (c *Ctx) closureContractEnv(env *Env, lit *ast.FuncLit, bind map[string]Val, results []Val, old *State) *Env {
	pos := lit.Body.Lbrace + 1
	if results != nil {
		// postconditions: the closure's own top-level locals are visible (like `checks` of functions)
		pos = lit.Body.Rbrace
	}
	ce := &Env{c: c, fn: env.fn, pkg: env.pkg, contract: true, scopePos: pos, bound: map[string]Val{}, results: results, old: old, noSafety: true}
	for k, v := range bind {
		ce.bound[k] = v
	}
	return ce
}

// isTrusted: the body is not verified in this property's check ("trusted" or "trusted{props}").
func (con *Contract) isTrusted(prop string) bool {
	return con.Trusted && (len(con.TrustedProps) == 0 || prop == "" || has(con.TrustedProps, prop))
}

package main

import (
	"fmt"
	"os"
	"os/exec"
	"bytes"
	"path/filepath"
	"strconv"
	"strings"
	"unicode"

	"google.golang.org/protobuf/proto"
	"google.golang.org/protobuf/reflect/protodesc"
	"google.golang.org/protobuf/reflect/protoreflect"
	"google.golang.org/protobuf/reflect/protoregistry"
	"google.golang.org/protobuf/types/descriptorpb"
	"google.golang.org/protobuf/types/pluginpb"
	_ "google.golang.org/protobuf/types/known/timestamppb"
	_ "google.golang.org/protobuf/types/known/durationpb"
	_ "reduction.dev/reduction-protocol/handlerpb"
	_ "reduction.dev/reduction-protocol/jobconfigpb"
)

type tok struct{ s string; str bool }

func lex(src string) []tok {
	var out []tok
	i := 0
	for i < len(src) {
		c := src[i]
		switch {
		case c == '/' && i+1 < len(src) && src[i+1] == '/':
			for i < len(src) && src[i] != '\n' { i++ }
		case c == '/' && i+1 < len(src) && src[i+1] == '*':
			j := strings.Index(src[i+2:], "*/"); i += j + 4
		case unicode.IsSpace(rune(c)):
			i++
		case c == '"':
			j := i + 1
			for src[j] != '"' { j++ }
			out = append(out, tok{src[i+1 : j], true}); i = j + 1
		case unicode.IsLetter(rune(c)) || c == '_' || unicode.IsDigit(rune(c)) || c == '.':
			j := i
			for j < len(src) && (unicode.IsLetter(rune(src[j])) || src[j] == '_' || unicode.IsDigit(rune(src[j])) || src[j] == '.') { j++ }
			out = append(out, tok{src[i:j], false}); i = j
		default:
			out = append(out, tok{string(c), false}); i++
		}
	}
	return out
}

type parser struct{ t []tok; p int }
func (p *parser) next() tok { x := p.t[p.p]; p.p++; return x }
func (p *parser) peek() string { if p.p >= len(p.t) { return "" }; return p.t[p.p].s }
func (p *parser) expect(s string) { if x := p.next(); x.s != s { panic(fmt.Sprintf("expected %q got %q at %d", s, x.s, p.p)) } }

var scalar = map[string]descriptorpb.FieldDescriptorProto_Type{
	"double": descriptorpb.FieldDescriptorProto_TYPE_DOUBLE, "float": descriptorpb.FieldDescriptorProto_TYPE_FLOAT,
	"int32": descriptorpb.FieldDescriptorProto_TYPE_INT32, "int64": descriptorpb.FieldDescriptorProto_TYPE_INT64,
	"uint32": descriptorpb.FieldDescriptorProto_TYPE_UINT32, "uint64": descriptorpb.FieldDescriptorProto_TYPE_UINT64,
	"bool": descriptorpb.FieldDescriptorProto_TYPE_BOOL, "string": descriptorpb.FieldDescriptorProto_TYPE_STRING,
	"bytes": descriptorpb.FieldDescriptorProto_TYPE_BYTES,
}

func jsonName(s string) string {
	var b strings.Builder; up := false
	for _, c := range s { if c == '_' { up = true; continue }; if up { b.WriteRune(unicode.ToUpper(c)); up = false } else { b.WriteRune(c) } }
	return b.String()
}

func (p *parser) field(msg *descriptorpb.DescriptorProto, oneof *int32) {
	label := descriptorpb.FieldDescriptorProto_LABEL_OPTIONAL
	if p.peek() == "repeated" { p.next(); label = descriptorpb.FieldDescriptorProto_LABEL_REPEATED }
	typ := p.next().s
	name := p.next().s
	p.expect("=")
	num, _ := strconv.Atoi(p.next().s)
	p.expect(";")
	f := &descriptorpb.FieldDescriptorProto{Name: proto.String(name), Number: proto.Int32(int32(num)), Label: label.Enum(), JsonName: proto.String(jsonName(name))}
	if t, ok := scalar[typ]; ok { f.Type = t.Enum() } else { f.TypeName = proto.String(typ) } // resolved later
	f.OneofIndex = oneof
	msg.Field = append(msg.Field, f)
}

func (p *parser) message() *descriptorpb.DescriptorProto {
	m := &descriptorpb.DescriptorProto{Name: proto.String(p.next().s)}
	p.expect("{")
	for p.peek() != "}" {
		switch p.peek() {
		case "oneof":
			p.next(); on := p.next().s; p.expect("{")
			idx := int32(len(m.OneofDecl)); m.OneofDecl = append(m.OneofDecl, &descriptorpb.OneofDescriptorProto{Name: proto.String(on)})
			for p.peek() != "}" { p.field(m, proto.Int32(idx)) }
			p.expect("}")
		case "message":
			p.next(); m.NestedType = append(m.NestedType, p.message())
		default:
			p.field(m, nil)
		}
	}
	p.expect("}")
	return m
}

func parseFile(name, src string) *descriptorpb.FileDescriptorProto {
	p := &parser{t: lex(src)}
	fd := &descriptorpb.FileDescriptorProto{Name: proto.String(name), Options: &descriptorpb.FileOptions{}}
	for p.p < len(p.t) {
		switch k := p.next().s; k {
		case "syntax": p.expect("="); fd.Syntax = proto.String(p.next().s); p.expect(";")
		case "import": fd.Dependency = append(fd.Dependency, p.next().s); p.expect(";")
		case "package": fd.Package = proto.String(p.next().s); p.expect(";")
		case "option": on := p.next().s; p.expect("="); v := p.next().s; p.expect(";"); if on == "go_package" { fd.Options.GoPackage = proto.String(v) }
		case "message": fd.MessageType = append(fd.MessageType, p.message())
		case "service":
			s := &descriptorpb.ServiceDescriptorProto{Name: proto.String(p.next().s)}; p.expect("{")
			for p.peek() != "}" {
				p.expect("rpc"); mn := p.next().s; p.expect("("); in := p.next().s; p.expect(")"); p.expect("returns"); p.expect("("); out := p.next().s; p.expect(")"); p.expect(";")
				s.Method = append(s.Method, &descriptorpb.MethodDescriptorProto{Name: proto.String(mn), InputType: proto.String(in), OutputType: proto.String(out)})
			}
			p.expect("}"); fd.Service = append(fd.Service, s)
		default: panic("unexpected " + k)
		}
	}
	return fd
}

// resolve type names: try scopes from innermost package outward
func resolve(fd *descriptorpb.FileDescriptorProto, known map[string]bool /* full names of messages */) {
	pkg := fd.GetPackage()
	res := func(n string) string {
		if strings.HasPrefix(n, ".") { return n }
		parts := strings.Split(pkg, ".")
		for i := len(parts); i >= 0; i-- {
			cand := strings.Join(append(append([]string{}, parts[:i]...), n), ".")
			if known[cand] { return "." + cand }
		}
		panic("unresolved type " + n + " in " + fd.GetName())
	}
	var walk func(m *descriptorpb.DescriptorProto)
	walk = func(m *descriptorpb.DescriptorProto) {
		for _, f := range m.Field { if f.TypeName != nil { f.TypeName = proto.String(res(*f.TypeName)); f.Type = descriptorpb.FieldDescriptorProto_TYPE_MESSAGE.Enum() } }
		for _, n := range m.NestedType { walk(n) }
	}
	for _, m := range fd.MessageType { walk(m) }
	for _, s := range fd.Service { for _, m := range s.Method { m.InputType = proto.String(res(*m.InputType)); m.OutputType = proto.String(res(*m.OutputType)) } }
}

func main() {
	root := os.Args[1]; out := os.Args[2]
	files := []string{"proto/snapshotpb/snapshot.proto", "proto/jobpb/job.proto", "proto/workerpb/worker.proto", "proto/e2epb/e2e.proto", "connectors/kafka/kafkapb/kafka.proto", "connectors/kinesis/kinesispb/kinesis.proto"}
	known := map[string]bool{}
	var all []*descriptorpb.FileDescriptorProto
	seen := map[string]bool{}
	var addDep func(fd protoreflect.FileDescriptor)
	addDep = func(fd protoreflect.FileDescriptor) {
		if seen[fd.Path()] { return }; seen[fd.Path()] = true
		for i := 0; i < fd.Imports().Len(); i++ { addDep(fd.Imports().Get(i).FileDescriptor) }
		all = append(all, protodesc.ToFileDescriptorProto(fd))
		var reg func(ms protoreflect.MessageDescriptors)
		reg = func(ms protoreflect.MessageDescriptors) { for i := 0; i < ms.Len(); i++ { known[string(ms.Get(i).FullName())] = true; reg(ms.Get(i).Messages()) } }
		reg(fd.Messages())
	}
	var parsed []*descriptorpb.FileDescriptorProto
	for _, f := range files {
		src, err := os.ReadFile(filepath.Join(root, f)); if err != nil { panic(err) }
		fd := parseFile(f, string(src)); parsed = append(parsed, fd)
		var reg func(prefix string, ms []*descriptorpb.DescriptorProto)
		reg = func(prefix string, ms []*descriptorpb.DescriptorProto) { for _, m := range ms { known[prefix+m.GetName()] = true; reg(prefix+m.GetName()+".", m.NestedType) } }
		reg(fd.GetPackage()+".", fd.MessageType)
		for _, d := range fd.Dependency {
			if rd, err := protoregistry.GlobalFiles.FindFileByPath(d); err == nil { addDep(rd) }
		}
	}
	for _, fd := range parsed { resolve(fd, known); all = append(all, fd) }
	// validate
	if _, err := protodesc.NewFiles(&descriptorpb.FileDescriptorSet{File: all}); err != nil { panic(err) }
	req := &pluginpb.CodeGeneratorRequest{FileToGenerate: files, Parameter: proto.String("paths=source_relative"), ProtoFile: all}
	data, _ := proto.Marshal(req)
	for _, plugin := range os.Args[3:] {
		cmd := exec.Command(plugin); cmd.Stdin = bytes.NewReader(data); var ob bytes.Buffer; cmd.Stdout = &ob; cmd.Stderr = os.Stderr
		if err := cmd.Run(); err != nil { panic(err) }
		var resp pluginpb.CodeGeneratorResponse
		if err := proto.Unmarshal(ob.Bytes(), &resp); err != nil { panic(err) }
		if resp.Error != nil { panic(*resp.Error) }
		for _, f := range resp.File { p := filepath.Join(out, f.GetName()); os.MkdirAll(filepath.Dir(p), 0o755); os.WriteFile(p, []byte(f.GetContent()), 0o644); fmt.Println("wrote", p) }
	}
}

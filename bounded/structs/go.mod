module verif/bounded/structs

go 1.24

require reduction.dev/reduction v0.0.0

require github.com/google/btree v1.1.3 // indirect

replace reduction.dev/reduction => /repo

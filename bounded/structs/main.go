// Bounded stand-ins for the ordered structures that the contracts treat as TRUSTED (zip tree,
// k-way merge iterators, partitioned priority queue) and for the one property of the binary heap
// the contracts do not state (the multiset of elements is preserved). Each is compared with a
// plain sorted-slice reference on EVERY operation sequence up to a stated bound over a small key
// universe (zip tree: every sequence repeated with fresh random ranks). BOUNDED: a pass says
// nothing beyond the bound; never counted as proved.
// usage: structs <which: ziptree|merge|ppq|heap|all> <replay-out.json>; exit 0 ok, 1 mismatch, 2 broken
package main

import (
	"bytes"
	"cmp"
	"encoding/json"
	"fmt"
	"iter"
	"os"
	"slices"
	"sort"
	"strings"

	"reduction.dev/reduction/dkv/mergesort"
	"reduction.dev/reduction/dkv/ziptree"
	"reduction.dev/reduction/util/ds"
	"reduction.dev/reduction/util/iteru"
)

var out = "structs_replay.json"

func fail(which, what string, detail map[string]any) {
	detail["check"] = "bounded stand-in: " + which
	detail["mismatch"] = what
	b, _ := json.MarshalIndent(detail, "", " ")
	os.WriteFile(out, b, 0o644)
	fmt.Printf("  FAIL bounded/%s %s %v\n", which, what, detail)
	os.Exit(1)
}

// ---- zip tree: Put / Get / AscendPrefix against a sorted map
func checkZipTree() int {
	keys := []string{"a", "ab", "abc", "b", "ba", "c"}
	prefixes := []string{"", "a", "ab", "b", "c", "d"}
	n := 0
	var seq []int
	var run func(depth int)
	check := func() {
		for rep := 0; rep < 6; rep++ { // ranks are random: repeat
			t := ziptree.New()
			ref := map[string]string{}
			var ops []string
			for i, k := range seq {
				key, val := keys[k], fmt.Sprintf("v%d", i)
				_, had := ref[key]
				rep := t.Put(ziptree.NewKVEntry([]byte(key), []byte(val)))
				ops = append(ops, "Put("+key+","+val+")")
				if (rep != nil) != had {
					fail("ziptree", "Put reports a replacement wrongly", map[string]any{"ops": ops, "replaced": rep != nil, "expected": had})
				}
				if rep != nil && string(rep.Value) != ref[key] {
					fail("ziptree", "Put returned the wrong replaced node", map[string]any{"ops": ops, "got": string(rep.Value), "expected": ref[key]})
				}
				ref[key] = val
			}
			for _, k := range keys {
				nd, ok := t.Get([]byte(k))
				v, had := ref[k]
				if ok != had || (ok && string(nd.Value) != v) {
					fail("ziptree", "Get disagrees with the reference", map[string]any{"ops": ops, "key": k, "found": ok, "expected_found": had})
				}
			}
			for _, p := range prefixes {
				var got []string
				for nd := range t.AscendPrefix([]byte(p)) {
					got = append(got, string(nd.Key)+"="+string(nd.Value))
				}
				var want []string
				for k, v := range ref {
					if strings.HasPrefix(k, p) {
						want = append(want, k+"="+v)
					}
				}
				sort.Strings(want)
				if !slices.Equal(got, want) {
					fail("ziptree", "AscendPrefix disagrees with the reference", map[string]any{"ops": ops, "prefix": p, "got": got, "expected": want})
				}
			}
			n++
		}
	}
	run = func(depth int) {
		check()
		if depth == 5 {
			return
		}
		for k := range keys {
			seq = append(seq, k)
			run(depth + 1)
			seq = seq[:len(seq)-1]
		}
	}
	run(0)
	return n
}

// ---- merges: every way to distribute sorted runs over up to 3 inputs
type item struct {
	k   int
	seq int
}

func checkMerges() int {
	n := 0
	// inputs: each a strictly ascending (by k) run over k in 0..3; seq distinct per input
	var runs [][]item
	for mask := 0; mask < 16; mask++ {
		var r []item
		for k := 0; k < 4; k++ {
			if mask&(1<<k) != 0 {
				r = append(r, item{k: k})
			}
		}
		runs = append(runs, r)
	}
	seqOf := func(r []item, s int) []item {
		o := make([]item, len(r))
		for i, it := range r {
			o[i] = item{it.k, s*10 + i}
		}
		return o
	}
	for a := range runs {
		for b := range runs {
			for c := range runs {
				for perm := 0; perm < 6; perm++ { // which input is newest
					order := [][3]int{{1, 2, 3}, {1, 3, 2}, {2, 1, 3}, {2, 3, 1}, {3, 1, 2}, {3, 2, 1}}[perm]
					ins := [][]item{seqOf(runs[a], order[0]), seqOf(runs[b], order[1]), seqOf(runs[c], order[2])}
					var seqs []iter.Seq[item]
					for _, in := range ins {
						seqs = append(seqs, slices.Values(in))
					}
					// mergesort.Merge with "keep the higher seq"
					got := slices.Collect(mergesort.Merge(seqs, func(x, y item) int { return cmp.Compare(x.k, y.k) }, func(x, y item) item {
						if x.seq > y.seq {
							return x
						}
						return y
					}))
					best := map[int]item{}
					for _, in := range ins {
						for _, it := range in {
							if b, ok := best[it.k]; !ok || it.seq > b.seq {
								best[it.k] = it
							}
						}
					}
					var want []item
					for _, it := range best {
						want = append(want, it)
					}
					slices.SortFunc(want, func(x, y item) int { return cmp.Compare(x.k, y.k) })
					if !slices.Equal(got, want) {
						fail("mergesort.Merge", "output is not the newest entry per key in key order", map[string]any{"inputs": fmt.Sprint(ins), "got": fmt.Sprint(got), "expected": fmt.Sprint(want)})
					}
					// iteru.MergeSorted keeps everything, in order
					var seqs2 []iter.Seq[item]
					for _, in := range ins {
						seqs2 = append(seqs2, slices.Values(in))
					}
					got2 := slices.Collect(iteru.MergeSorted(seqs2, func(x, y item) int { return cmp.Compare(x.k, y.k) }))
					var all []item
					for _, in := range ins {
						all = append(all, in...)
					}
					if len(got2) != len(all) || !slices.IsSortedFunc(got2, func(x, y item) int { return cmp.Compare(x.k, y.k) }) {
						fail("iteru.MergeSorted", "output is not a sorted merge of all inputs", map[string]any{"inputs": fmt.Sprint(ins), "got": fmt.Sprint(got2)})
					}
					cnt := map[item]int{}
					for _, it := range all {
						cnt[it]++
					}
					for _, it := range got2 {
						cnt[it]--
					}
					for it, c := range cnt {
						if c != 0 {
							fail("iteru.MergeSorted", "an element was lost or duplicated", map[string]any{"inputs": fmt.Sprint(ins), "got": fmt.Sprint(got2), "element": fmt.Sprint(it)})
						}
					}
					n++
				}
			}
		}
	}
	return n
}

// ---- heap: every Push/Pop sequence up to length 8 over values 0..2 against a sorted slice
func checkHeap() int {
	n := 0
	var ops []int // 0..2 push value, 3 pop
	var run func(depth int)
	check := func() {
		h := ds.NewHeap(func(a, b int) int { return cmp.Compare(a, b) }, 4)
		var ref []int
		for i, op := range ops {
			if op < 3 {
				h.Push(op)
				ref = append(ref, op)
				sort.Ints(ref)
			} else {
				v, ok := h.Pop()
				if ok != (len(ref) > 0) || (ok && v != ref[0]) {
					fail("ds.Heap", "Pop disagrees with the sorted reference", map[string]any{"ops (0..2 push, 3 pop)": ops[:i+1], "got": v, "ok": ok, "reference": ref})
				}
				if ok {
					ref = ref[1:]
				}
			}
			if h.Size() != len(ref) {
				fail("ds.Heap", "Size disagrees with the reference", map[string]any{"ops (0..2 push, 3 pop)": ops[:i+1], "size": h.Size(), "reference": ref})
			}
			if v, ok := h.Peek(); ok != (len(ref) > 0) || (ok && v != ref[0]) {
				fail("ds.Heap", "Peek disagrees with the sorted reference", map[string]any{"ops (0..2 push, 3 pop)": ops[:i+1], "got": v, "reference": ref})
			}
		}
		n++
	}
	run = func(depth int) {
		check()
		if depth == 8 {
			return
		}
		for op := 0; op < 4; op++ {
			ops = append(ops, op)
			run(depth + 1)
			ops = ops[:len(ops)-1]
		}
	}
	run(0)
	return n
}

// ---- partitioned priority queue over slice-backed partitions
type part struct {
	items []int
	idx   int
}

func (p *part) Peek() (int, bool) {
	if len(p.items) == 0 {
		return 0, false
	}
	return p.items[0], true
}
func (p *part) Pop() (int, bool) {
	if len(p.items) == 0 {
		return 0, false
	}
	v := p.items[0]
	p.items = p.items[1:]
	return v, true
}
func (p *part) Push(v int) {
	p.items = append(p.items, v)
	sort.Ints(p.items)
}
func (p *part) IsEmpty() bool { return len(p.items) == 0 }
func (p *part) Delete(v int) {
	if i := slices.Index(p.items, v); i >= 0 {
		p.items = slices.Delete(p.items, i, i+1)
	}
}
func (p *part) AssignIndex(i int) { p.idx = i }
func (p *part) Index() int        { return p.idx }

// checkPPQ: values 0..nVals-1, partition = v % nParts; ops: push v (0..nVals-1), pop (nVals),
// delete v (nVals+1..2*nVals); every sequence of ops up to maxLen.
func checkPPQ(nParts, nVals, maxLen int) int {
	n := 0
	var ops []int
	var run func(depth int)
	check := func() {
		parts := make([]ds.QueuePartition[int], nParts)
		for i := range parts {
			parts[i] = &part{}
		}
		q := ds.NewPartitionedPriorityQueue(parts, func(a, b int) int { return cmp.Compare(a, b) }, func(v int) int { return v % nParts })
		var ref []int
		for i, op := range ops {
			switch {
			case op < nVals:
				q.Push(op)
				ref = append(ref, op)
				sort.Ints(ref)
			case op == nVals:
				v, ok := q.Pop()
				if ok != (len(ref) > 0) || (ok && v != ref[0]) {
					fail("ds.PartitionedPriorityQueue", "Pop disagrees with the sorted reference", map[string]any{"partitions": nParts, "values": nVals, "ops (v < values: push v; v == values: pop; else delete v-values-1)": ops[:i+1], "got": v, "ok": ok, "reference": ref})
				}
				if ok {
					ref = ref[1:]
				}
			default:
				v := op - nVals - 1
				q.Delete(v)
				if j := slices.Index(ref, v); j >= 0 {
					ref = slices.Delete(ref, j, j+1)
				}
			}
			if v, ok := q.Peek(); ok != (len(ref) > 0) || (ok && v != ref[0]) {
				fail("ds.PartitionedPriorityQueue", "Peek disagrees with the sorted reference", map[string]any{"partitions": nParts, "values": nVals, "ops (v < values: push v; v == values: pop; else delete v-values-1)": ops[:i+1], "got": v, "ok": ok, "reference": ref})
			}
			if q.IsEmpty() != (len(ref) == 0) {
				fail("ds.PartitionedPriorityQueue", "IsEmpty disagrees with the reference", map[string]any{"partitions": nParts, "values": nVals, "ops (v < values: push v; v == values: pop; else delete v-values-1)": ops[:i+1], "reference": ref})
			}
		}
		n++
	}
	run = func(depth int) {
		check()
		if depth == maxLen {
			return
		}
		for op := 0; op < 2*nVals+1; op++ {
			ops = append(ops, op)
			run(depth + 1)
			ops = ops[:len(ops)-1]
		}
	}
	run(0)
	return n
}

var _ = bytes.Compare

func main() {
	which := "all"
	if len(os.Args) > 1 {
		which = os.Args[1]
	}
	if len(os.Args) > 2 {
		out = os.Args[2]
	}
	if which == "ziptree" || which == "all" {
		fmt.Printf("  ok   bounded/ziptree %d runs: every Put sequence up to length 5 over 6 keys x 6 rank draws; Get on every key and AscendPrefix on 6 prefixes agree with a sorted map\n", checkZipTree())
	}
	if which == "merge" || which == "all" {
		fmt.Printf("  ok   bounded/merge %d cases: every triple of ascending runs over 4 keys x 6 age orders; mergesort.Merge = newest per key in key order, iteru.MergeSorted = sorted permutation of all inputs\n", checkMerges())
	}
	if which == "heap" || which == "all" {
		fmt.Printf("  ok   bounded/heap %d sequences: every Push/Pop sequence up to length 8 over 3 values agrees with a sorted slice (Pop, Peek, Size)\n", checkHeap())
	}
	if which == "ppq" || which == "all" {
		fmt.Printf("  ok   bounded/ppq %d sequences: every Push/Pop/Delete sequence up to length 5 over 6 values in 3 partitions, and up to length 4 over 7 values in 5 partitions, agrees with a sorted slice (Pop, Peek, IsEmpty)\n", checkPPQ(3, 6, 5)+checkPPQ(5, 7, 4))
	}
}

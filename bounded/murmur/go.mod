module verif/bounded/murmur

go 1.24

require reduction.dev/reduction v0.0.0

replace reduction.dev/reduction => /repo

// Bounded stand-in for util/murmur.Hash (trusted, not proved, in the C05 contracts): the real
// function from /repo's current working tree is compared with an independent implementation of
// MurmurHash3 x86_32 written from the algorithm's definition, on the published test vectors and
// on every length 0..67 x 256 pseudo-random byte strings x 3 seeds (fixed PRNG, so every run
// checks the same 52 224 inputs). BOUNDED: a pass says nothing about other inputs.
// usage: murmur <replay-out.json>   exit 0 = all equal, 1 = mismatch (replay file written)
package main

import (
	"encoding/hex"
	"encoding/json"
	"fmt"
	"os"

	"reduction.dev/reduction/util/murmur"
)

func rotl(x uint32, r uint) uint32 { return x<<r | x>>(32-r) }

// reference: MurmurHash3_x86_32 (Austin Appleby, public domain), blocks read little endian
func reference(data []byte, seed uint32) uint32 {
	const c1, c2 = 0xcc9e2d51, 0x1b873593
	h := seed
	n := len(data) / 4
	for b := 0; b < n; b++ {
		k := uint32(data[4*b]) | uint32(data[4*b+1])<<8 | uint32(data[4*b+2])<<16 | uint32(data[4*b+3])<<24
		k *= c1
		k = rotl(k, 15)
		k *= c2
		h ^= k
		h = rotl(h, 13)
		h = h*5 + 0xe6546b64
	}
	var k uint32
	tail := data[4*n:]
	if len(tail) >= 3 {
		k ^= uint32(tail[2]) << 16
	}
	if len(tail) >= 2 {
		k ^= uint32(tail[1]) << 8
	}
	if len(tail) >= 1 {
		k ^= uint32(tail[0])
		k *= c1
		k = rotl(k, 15)
		k *= c2
		h ^= k
	}
	h ^= uint32(len(data))
	h ^= h >> 16
	h *= 0x85ebca6b
	h ^= h >> 13
	h *= 0xc2b2ae35
	h ^= h >> 16
	return h
}

type vector struct {
	data []byte
	seed uint32
	want uint32
}

func main() {
	out := "murmur_replay.json"
	if len(os.Args) > 1 {
		out = os.Args[1]
	}
	fail := func(data []byte, seed uint32, want, got uint32, what string) {
		b, _ := json.MarshalIndent(map[string]any{
			"property": "C05", "check": "bounded stand-in: murmur.Hash against MurmurHash3 x86_32",
			"input_hex": hex.EncodeToString(data), "seed": seed, "expected": fmt.Sprintf("0x%08x", want), "got": fmt.Sprintf("0x%08x", got), "source": what,
			"replay": "murmur.Hash(<input>, seed) on /repo's current tree returns `got`; MurmurHash3 x86_32 is `expected`",
		}, "", " ")
		os.WriteFile(out, b, 0o644)
		fmt.Printf("  FAIL bounded/murmur.Hash input=%x seed=%d expected=0x%08x got=0x%08x (%s)\n", data, seed, want, got, what)
		os.Exit(1)
	}
	vectors := []vector{
		{nil, 0, 0}, {nil, 1, 0x514E28B7}, {nil, 0xffffffff, 0x81F16F39},
		{[]byte{0xff, 0xff, 0xff, 0xff}, 0, 0x76293B50}, {[]byte{0x21, 0x43, 0x65, 0x87}, 0, 0xF55B516B},
		{[]byte{0x21, 0x43, 0x65}, 0, 0x7E4A8634}, {[]byte{0x21, 0x43}, 0, 0xA0F7B07A}, {[]byte{0x21}, 0, 0x72661CF4},
		{[]byte("Hello, world!"), 0x9747b28c, 0x24884CBA}, {[]byte("The quick brown fox jumps over the lazy dog"), 0x9747b28c, 0x2FA826CD},
		{[]byte("aaaa"), 0x9747b28c, 0x5A97808A}, {[]byte("abc"), 0, 0xB3DD93FA},
	}
	checked := 0
	for _, v := range vectors {
		if r := reference(v.data, v.seed); r != v.want {
			fmt.Printf("BROKEN-CHECK bounded/murmur: the reference implementation disagrees with a published vector (%x seed %d: 0x%08x)\n", v.data, v.seed, r)
			os.Exit(2)
		}
		if v.seed <= 0x7fffffff || ^uint(0)>>32 != 0 {
			if g := murmur.Hash(v.data, int(v.seed)); g != v.want {
				fail(v.data, v.seed, v.want, g, "published vector")
			}
		}
		checked++
	}
	x := uint64(0x9E3779B97F4A7C15)
	next := func() byte {
		x ^= x << 13
		x ^= x >> 7
		x ^= x << 17
		return byte(x >> 32)
	}
	for _, seed := range []uint32{0, 1, 0x9747b28c} {
		for n := 0; n <= 67; n++ {
			for k := 0; k < 256; k++ {
				data := make([]byte, n)
				for i := range data {
					data[i] = next()
				}
				if want, got := reference(data, seed), murmur.Hash(data, int(seed)); want != got {
					fail(data, seed, want, got, "pseudo-random input")
				}
				checked++
			}
		}
	}
	fmt.Printf("  ok   bounded/murmur.Hash %d inputs (lengths 0..67, 3 seeds, published vectors) agree with MurmurHash3 x86_32\n", checked)
}

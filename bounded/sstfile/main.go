// Bounded stand-in for the WRITER side of table files (TableWriter.Write / WriteRun, entryBuffer)
// and for the reader/writer agreement that the record-level proofs only have as a hypothesis
// (recsWF: "the file is a sequence of well-formed records, the sparse index points at record
// starts"). Every key-ordered run over a small universe - every subset of 6 keys (the empty key
// and proper prefixes included), every assignment of {empty value, short value, binary value,
// tombstone} - and 300 pseudo-random runs of 40 entries (sparse index: more than 16 entries per
// table) is written as one table and split at several target sizes, then read back from the
// written tables and from tables re-opened from their descriptors: scan of everything, prefix
// scans, point lookup of every key of the universe; split tables' key ranges disjoint and ordered.
// BOUNDED: a pass says nothing beyond these runs; never counted as proved.
// usage: sstfile <replay-out.json>; exit 0 ok, 1 mismatch, 2 broken
package main

import (
	"bytes"
	"encoding/json"
	"errors"
	"fmt"
	"iter"
	"os"
	"runtime"
	"slices"

	"reduction.dev/reduction/dkv/kv"
	"reduction.dev/reduction/dkv/sst"
	"reduction.dev/reduction/dkv/storage"
)

type ent struct {
	k, v []byte
	del  bool
	seq  uint64
}

func (e ent) Key() []byte    { return e.k }
func (e ent) Value() []byte  { return e.v }
func (e ent) IsDelete() bool { return e.del }
func (e ent) SeqNum() uint64 { return e.seq }

type owner struct{}

func (owner) OwnsKey([]byte) bool                                       { return true }
func (owner) ExclusivelyOwnsTable(string, []byte, []byte) (bool, error) { return false, nil }

var out = "sstfile_replay.json"

func show(es []ent) []string {
	var s []string
	for _, e := range es {
		if e.del {
			s = append(s, fmt.Sprintf("%q@%d:DEL", e.k, e.seq))
		} else {
			s = append(s, fmt.Sprintf("%q@%d=%q", e.k, e.seq, e.v))
		}
	}
	return s
}

func fail(what string, run []ent, target uint64, detail map[string]any) {
	detail["check"] = "bounded stand-in: table files written by TableWriter.WriteRun read back entry for entry"
	detail["mismatch"] = what
	detail["run"] = show(run)
	detail["target_size"] = target
	b, _ := json.MarshalIndent(detail, "", " ")
	os.WriteFile(out, b, 0o644)
	fmt.Printf("  FAIL bounded/sstfile %s (target size %d, run %v) %v\n", what, target, show(run), detail["got"])
	os.Exit(1)
}

func same(e kv.Entry, w ent) bool {
	return bytes.Equal(e.Key(), w.k) && e.IsDelete() == w.del && e.SeqNum() == w.seq && (w.del || bytes.Equal(e.Value(), w.v))
}

func collect(t *sst.Table, prefix []byte) ([]kv.Entry, error) {
	var err error
	var got []kv.Entry
	for e := range t.ScanPrefix(prefix, &err) {
		got = append(got, e)
	}
	return got, err
}

var universe [][]byte

func checkRun(run []ent, target uint64) {
	fs := storage.NewMemoryFilesystem()
	tw := sst.NewTableWriter(fs, 0)
	var seq iter.Seq[kv.Entry] = func(yield func(kv.Entry) bool) {
		for _, e := range run {
			if !yield(e) {
				return
			}
		}
	}
	tables, err := tw.WriteRun(seq, target)
	if err != nil {
		fail("WriteRun returned an error", run, target, map[string]any{"got": err.Error()})
	}
	written := tables // the writer's table objects delete their files when they are collected: keep them alive
	defer runtime.KeepAlive(written)
	for pass := 0; pass < 2; pass++ {
		if pass == 1 {
			// re-open every table from its descriptor
			var re []*sst.Table
			for _, t := range tables {
				re = append(re, sst.NewTableFromDocument(fs, owner{}, t.Document()))
			}
			tables = re
		}
		// everything, in order, exactly once
		var all []kv.Entry
		for _, t := range tables {
			got, err := collect(t, nil)
			if err != nil {
				fail("scan returned an error", run, target, map[string]any{"got": err.Error(), "reopened": pass == 1})
			}
			all = append(all, got...)
		}
		if len(all) != len(run) {
			fail("scan of all tables does not return the run entry for entry", run, target, map[string]any{"got": fmt.Sprint(len(all), " entries"), "reopened": pass == 1})
		}
		for i := range run {
			if !same(all[i], run[i]) {
				fail("scan of all tables does not return the run entry for entry", run, target, map[string]any{"got": fmt.Sprintf("entry %d: %q del=%v seq=%d value=%q", i, all[i].Key(), all[i].IsDelete(), all[i].SeqNum(), all[i].Value()), "reopened": pass == 1})
			}
		}
		// key ranges of the split tables: non-empty, ordered, disjoint
		for i, t := range tables {
			d := t.Document()
			if bytes.Compare(d.StartKey, d.EndKey) > 0 {
				fail("table range is empty or reversed", run, target, map[string]any{"got": fmt.Sprintf("table %d [%q, %q]", i, d.StartKey, d.EndKey)})
			}
			if i > 0 {
				p := tables[i-1].Document()
				if bytes.Compare(p.EndKey, d.StartKey) >= 0 {
					fail("key ranges of split tables overlap or are out of order", run, target, map[string]any{"got": fmt.Sprintf("table %d ends %q, table %d starts %q", i-1, p.EndKey, i, d.StartKey)})
				}
			}
		}
		// point lookups: every key of the universe in the table whose range holds it
		for _, k := range universe {
			var want *ent
			for i := range run {
				if bytes.Equal(run[i].k, k) {
					want = &run[i]
				}
			}
			found := false
			for _, t := range tables {
				if !t.RangeContainsKey(k) {
					continue
				}
				e, err := t.Get(k)
				if err != nil && !errors.Is(err, kv.ErrNotFound) {
					fail("Get returned an error", run, target, map[string]any{"got": err.Error(), "key": string(k)})
				}
				if err == nil {
					if want == nil || !same(e, *want) {
						fail("Get returned an entry that was not written", run, target, map[string]any{"got": fmt.Sprintf("%q del=%v seq=%d value=%q", e.Key(), e.IsDelete(), e.SeqNum(), e.Value()), "key": string(k), "reopened": pass == 1})
					}
					found = true
				}
			}
			if want != nil && !found {
				fail("Get does not find a key that was written (bloom filter, sparse index or range)", run, target, map[string]any{"got": "NotFound", "key": string(k), "reopened": pass == 1})
			}
		}
		// prefix scans
		for _, p := range [][]byte{[]byte("a"), []byte("ab"), []byte("b"), []byte("k1"), []byte("zz")} {
			var got []kv.Entry
			for _, t := range tables {
				if !t.RangeContainsPrefix(p) {
					continue
				}
				g, err := collect(t, p)
				if err != nil {
					fail("prefix scan returned an error", run, target, map[string]any{"got": err.Error()})
				}
				got = append(got, g...)
			}
			var want []ent
			for _, e := range run {
				if bytes.HasPrefix(e.k, p) {
					want = append(want, e)
				}
			}
			if len(got) != len(want) {
				fail("prefix scan does not return exactly the entries with the prefix", run, target, map[string]any{"got": fmt.Sprint(len(got), " entries"), "prefix": string(p), "reopened": pass == 1})
			}
			for i := range want {
				if !same(got[i], want[i]) {
					fail("prefix scan does not return exactly the entries with the prefix", run, target, map[string]any{"got": fmt.Sprintf("%q", got[i].Key()), "prefix": string(p)})
				}
			}
		}
	}
}

func main() {
	if len(os.Args) > 1 {
		out = os.Args[1]
	}
	defer func() {
		if r := recover(); r != nil {
			b, _ := json.MarshalIndent(map[string]any{"check": "bounded stand-in: table files", "mismatch": "the real code panicked", "panic": fmt.Sprint(r)}, "", " ")
			os.WriteFile(out, b, 0o644)
			fmt.Printf("  FAIL bounded/sstfile the real code panicked: %v\n", r)
			os.Exit(1)
		}
	}()
	keys := [][]byte{[]byte(""), []byte("a"), []byte("ab"), []byte("b"), {0xff, 0x00}, {0xff, 0xfe, 0x80}}
	slices.SortFunc(keys, bytes.Compare)
	universe = append(universe, keys...)
	universe = append(universe, []byte("zz"), []byte("a\x00"))
	vals := [][]byte{{}, []byte("v"), {0x00, 0xff, 0x80, 0x01, 0x00}}
	n := 0
	for mask := 0; mask < 1<<len(keys); mask++ {
		var sel [][]byte
		for i, k := range keys {
			if mask&(1<<i) != 0 {
				sel = append(sel, k)
			}
		}
		kinds := make([]int, len(sel))
		for {
			run := make([]ent, len(sel))
			for i, k := range sel {
				run[i] = ent{k: k, seq: uint64(100 + 7*i)}
				if kinds[i] == 3 {
					run[i].del = true
				} else {
					run[i].v = vals[kinds[i]]
				}
			}
			if len(run) > 0 {
				for _, target := range []uint64{1, 30, 1 << 20} {
					checkRun(run, target)
					n++
				}
			}
			i := 0
			for ; i < len(kinds); i++ {
				kinds[i]++
				if kinds[i] < 4 {
					break
				}
				kinds[i] = 0
			}
			if i == len(kinds) {
				break
			}
		}
	}
	// longer runs: more than 16 entries per table (sparse index), pseudo-random kinds
	x := uint64(0x2545F4914F6CDD1D)
	next := func() uint64 { x ^= x << 13; x ^= x >> 7; x ^= x << 17; return x }
	for i := 0; i < 40; i++ {
		universe = append(universe, []byte(fmt.Sprintf("k%02d", i)))
	}
	for r := 0; r < 300; r++ {
		var run []ent
		for i := 0; i < 40; i++ {
			if next()%5 == 0 {
				continue
			}
			e := ent{k: []byte(fmt.Sprintf("k%02d", i)), seq: next() % 1000}
			switch next() % 4 {
			case 0:
				e.del = true
			case 1:
				e.v = []byte{}
			default:
				e.v = bytes.Repeat([]byte{byte(next())}, int(next()%20))
			}
			run = append(run, e)
		}
		for _, target := range []uint64{60, 200, 700, 1 << 20} {
			checkRun(run, target)
			n++
		}
	}
	fmt.Printf("  ok   bounded/sstfile %d runs written by TableWriter.WriteRun and read back entry for entry (scan, prefix scans, point lookups, re-opened from descriptors; split ranges disjoint and ordered)\n", n)
}

module verif/bounded/sstfile

go 1.24

require reduction.dev/reduction v0.0.0

require (
	github.com/VictoriaMetrics/metrics v1.35.1 // indirect
	github.com/aws/aws-sdk-go-v2 v1.32.8 // indirect
	github.com/aws/aws-sdk-go-v2/aws/protocol/eventstream v1.6.7 // indirect
	github.com/aws/aws-sdk-go-v2/config v1.28.10 // indirect
	github.com/aws/aws-sdk-go-v2/credentials v1.17.51 // indirect
	github.com/aws/aws-sdk-go-v2/feature/ec2/imds v1.16.23 // indirect
	github.com/aws/aws-sdk-go-v2/internal/configsources v1.3.27 // indirect
	github.com/aws/aws-sdk-go-v2/internal/endpoints/v2 v2.6.27 // indirect
	github.com/aws/aws-sdk-go-v2/internal/ini v1.8.1 // indirect
	github.com/aws/aws-sdk-go-v2/internal/v4a v1.3.27 // indirect
	github.com/aws/aws-sdk-go-v2/service/internal/accept-encoding v1.12.1 // indirect
	github.com/aws/aws-sdk-go-v2/service/internal/checksum v1.4.8 // indirect
	github.com/aws/aws-sdk-go-v2/service/internal/presigned-url v1.12.8 // indirect
	github.com/aws/aws-sdk-go-v2/service/internal/s3shared v1.18.8 // indirect
	github.com/aws/aws-sdk-go-v2/service/s3 v1.72.2 // indirect
	github.com/aws/aws-sdk-go-v2/service/sso v1.24.9 // indirect
	github.com/aws/aws-sdk-go-v2/service/ssooidc v1.28.8 // indirect
	github.com/aws/aws-sdk-go-v2/service/sts v1.33.6 // indirect
	github.com/aws/smithy-go v1.22.1 // indirect
	github.com/google/btree v1.1.3 // indirect
	github.com/valyala/fastrand v1.1.0 // indirect
	github.com/valyala/histogram v1.2.0 // indirect
)

replace reduction.dev/reduction => /repo
